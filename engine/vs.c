// vs.c - E1 cooperative scheduler with virtual clock, E2 choice-tree explorer.
// Linked against the unmodified libnng.a with -Wl,--wrap= for every
// synchronisation / time / blocking-I/O primitive the library uses.
#define _GNU_SOURCE
#include "vs.h"
#include <errno.h>
#include <fcntl.h>
#include <linux/futex.h>
#include <poll.h>
#include <pthread.h>
#include <sched.h>
#include <signal.h>
#include <stdarg.h>
#include <stdlib.h>
#include <string.h>
#include <sys/epoll.h>
#include <sys/mman.h>
#include <sys/socket.h>
#include <sys/stat.h>
#include <sys/syscall.h>
#include <sys/uio.h>
#include <sys/wait.h>
#include <time.h>
#include <unistd.h>

// ============================================================================
// shared result area (one per worker), filled by the forked child
// ============================================================================
#define MAXCP   (1 << 16)
#define MAXDEV  40
#define LOGSZ   (1 << 16)

typedef struct cprec {
	uint16_t n;     // alternatives
	uint8_t  kind;  // VK_*
	uint8_t  flags; // 1 = running thread still enabled, 2 = last alt is TIMER
} cprec;

typedef struct dev {
	uint32_t idx;
	uint16_t alt, n;
	uint8_t  kind, cls;
} dev;

typedef struct item {
	int32_t next;
	uint16_t ndev;
	uint8_t  used[VB_NB];
	uint8_t  level;
	dev      d[MAXDEV];
} item;

typedef struct wres {
	volatile int ncp;
	int      cp_overflow;
	int      finished; // run() returned normally
	int      failed;   // vs_fail called
	int      nontrivial;
	long     cases;
	long     steps, switches, io_calls;
	char     outcome[128];
	char     clause[160];
	char     msg[1024];
	char     soft_clause[160]; // recorded violation that did not end the run
	char     soft_msg[600];
	int      loglen;
	char     log[LOGSZ];
	cprec    rec[MAXCP];
} wres;

// ============================================================================
// E1: scheduler (child side)
// ============================================================================
enum { ST_RUN, ST_MUTEX, ST_CV, ST_JOIN, ST_EPOLL, ST_SLEEP, ST_IDLE, ST_DONE };
#define MAXT 96
typedef struct vt {
	int          id, state;
	volatile int go;
	void        *obj;
	void        *mtx;
	int64_t      deadline;
	int          timedout;
	uint64_t     seq;
	struct vt   *join;
	pthread_t    tid;
	void *(*fn)(void *);
	void        *arg;
} vt;

static vt          T[MAXT];
static int         NT;
static __thread vt *self;
static int64_t     now_ms = 1000000;
static uint64_t    seqno;
static int         window;
static wres       *W; // result area of this execution
static const item *PFX;
static int         pfx_pos;
static long        clock_calls;
int                vs_atomic_points;
int                vs_alloc_points;
int                vs_unlock_points = 2;
int                vs_io_points;
int                vs_io_maxclamp = 8;
int                vs_io_eagain;
int                vs_tcp_grace_us;
uint32_t           vs_random_seed = 0x12345678;
int                vs_gai_fail_left; // lookups of names ending in ".invalid" still to fail with EAI_NONAME
int                vs_gai_calls;     // lookups of such names so far
int                vs_in_child;
long               vs_io_calls;
static long        step_cap = 3000000;

#define MAXM 16384
static struct {
	void *m;
	int   owner;
} M[MAXM];

static int *
owner_of(void *m)
{
	size_t h = (((uintptr_t) m >> 3) * 2654435761u) % MAXM;
	for (;;) {
		if (M[h].m == m)
			return &M[h].owner;
		if (M[h].m == NULL) {
			M[h].m     = m;
			M[h].owner = -1;
			return &M[h].owner;
		}
		h = (h + 1) % MAXM;
	}
}

static void
fwait(volatile int *w)
{
	while (__atomic_load_n(w, __ATOMIC_ACQUIRE) == 0)
		syscall(SYS_futex, w, FUTEX_WAIT_PRIVATE, 0, NULL, NULL, 0);
	__atomic_store_n(w, 0, __ATOMIC_RELEASE);
}
static void
fwake(volatile int *w)
{
	__atomic_store_n(w, 1, __ATOMIC_RELEASE);
	syscall(SYS_futex, w, FUTEX_WAKE_PRIVATE, 1, NULL, NULL, 0);
}

static void
child_exit(int code)
{
	if (W) {
		W->steps    = W->steps; // already maintained
		W->io_calls = vs_io_calls;
	}
	_exit(code);
}

static int
epoll_ready(int epfd)
{
	struct pollfd p = { .fd = epfd, .events = POLLIN };
	return poll(&p, 1, 0) > 0;
}

static int
enabled(vt *t)
{
	switch (t->state) {
	case ST_RUN:
		return 1;
	case ST_MUTEX:
		return *owner_of(t->obj) == -1;
	case ST_CV:
		return (t->deadline >= 0 && t->deadline < now_ms);
	case ST_JOIN:
		return t->join->state == ST_DONE;
	case ST_EPOLL:
		return epoll_ready((int) (intptr_t) t->obj);
	case ST_SLEEP:
		return t->deadline < now_ms;
	default:
		return 0;
	}
}

// a choice point: returns the alternative taken
static int
choice(int kind, int n, int flags)
{
	if (!window || n < 2)
		return 0;
	int cp = W->ncp;
	if (cp >= MAXCP) {
		W->cp_overflow = 1;
		return 0;
	}
	W->rec[cp].n     = (uint16_t) n;
	W->rec[cp].kind  = (uint8_t) kind;
	W->rec[cp].flags = (uint8_t) flags;
	W->ncp           = cp + 1;
	int c            = 0;
	if (PFX && pfx_pos < PFX->ndev && PFX->d[pfx_pos].idx == (uint32_t) cp) {
		const dev *d = &PFX->d[pfx_pos++];
		if (d->n != n || d->kind != kind) {
			fprintf(stderr,
			    "VS-DIVERGENCE cp=%d want n=%d kind=%d got n=%d kind=%d\n",
			    cp, d->n, d->kind, n, kind);
			child_exit(9);
		}
		c = d->alt;
	}
	return c;
}

static void
dump_threads(const char *why)
{
	static const char *sn[] = { "RUN", "MUTEX", "CV", "JOIN", "EPOLL",
		"SLEEP", "IDLE", "DONE" };
	fprintf(stderr, "VS-%s now=%lld\n", why, (long long) now_ms);
	for (int i = 0; i < NT; i++)
		fprintf(stderr, "  t%d %s obj=%p dl=%lld\n", i, sn[T[i].state],
		    T[i].obj, (long long) T[i].deadline);
}

static vt *
pick(void)
{
	for (;;) {
		vt *E[MAXT + 1];
		int ne = 0, selfen = 0;
		if (self->state != ST_DONE && self->state != ST_IDLE &&
		    enabled(self)) {
			E[ne++] = self;
			selfen  = 1;
		}
		for (int i = 0; i < NT; i++)
			if (&T[i] != self && T[i].state != ST_IDLE &&
			    T[i].state != ST_DONE && enabled(&T[i]))
				E[ne++] = &T[i];
		if (ne == 0 && vs_tcp_grace_us > 0) {
			// kernel edge for loopback TCP: give in-flight segments a
			// moment to land before concluding nothing is ready
			int any = 0;
			for (int i = 0; i < NT && !any; i++)
				if (T[i].state == ST_EPOLL) {
					struct pollfd p = { .fd = (int) (intptr_t) T[i].obj,
						.events         = POLLIN };
					if (poll(&p, 1, (vs_tcp_grace_us + 999) / 1000) > 0)
						any = 1;
				}
			if (any)
				continue;
		}
		vt *tw = NULL;
		if (window && ne >= 1) {
			for (int i = 0; i < NT; i++)
				if ((T[i].state == ST_CV || T[i].state == ST_SLEEP) &&
				    T[i].deadline >= now_ms &&
				    (!tw || T[i].deadline < tw->deadline))
					tw = &T[i];
			if (tw)
				E[ne++] = tw;
		}
		if (ne >= 2) {
			int c = choice(VK_SCHED, ne, selfen | (tw ? 2 : 0));
			if (tw && c == ne - 1)
				now_ms = tw->deadline + 1;
			return E[c];
		}
		if (ne == 1)
			return E[0];
		// nothing enabled at this instant: wake an idle (settling) thread
		for (int i = 0; i < NT; i++)
			if (T[i].state == ST_IDLE)
				return &T[i];
		int64_t next = -1;
		for (int i = 0; i < NT; i++)
			if ((T[i].state == ST_CV || T[i].state == ST_SLEEP) &&
			    T[i].deadline >= 0 && (next < 0 || T[i].deadline < next))
				next = T[i].deadline;
		if (next < 0) {
			dump_threads("DEADLOCK");
			if (W) {
				W->failed = 1;
				snprintf(W->clause, sizeof(W->clause), "deadlock");
				snprintf(W->msg, sizeof(W->msg),
				    "no thread enabled and no timer pending");
			}
			child_exit(3);
		}
		now_ms = next + 1; // timed waits return strictly after the deadline
	}
}

static void
yield_to_sched(void)
{
	clock_calls = 0;
	if (W) {
		if (++W->steps > step_cap) {
			dump_threads("LIVELOCK");
			W->failed = 1;
			snprintf(W->clause, sizeof(W->clause), "livelock");
			snprintf(W->msg, sizeof(W->msg),
			    "scheduling step cap %ld exceeded", step_cap);
			child_exit(4);
		}
	}
	vt *n = pick();
	if (n == self)
		return;
	if (W)
		W->switches++;
	fwake(&n->go);
	if (self->state == ST_DONE)
		return;
	fwait(&self->go);
}

int __real_pthread_mutex_lock(pthread_mutex_t *);
int __real_pthread_mutex_unlock(pthread_mutex_t *);
int __real_pthread_create(
    pthread_t *, const pthread_attr_t *, void *(*) (void *), void *);
int __real_pthread_join(pthread_t, void **);
int __real_clock_gettime(clockid_t, struct timespec *);
int __real_epoll_wait(int, struct epoll_event *, int, int);
int __real_nanosleep(const struct timespec *, struct timespec *);

int
__wrap_pthread_mutex_lock(pthread_mutex_t *m)
{
	if (!self)
		return __real_pthread_mutex_lock(m);
	int *o = owner_of(m);
	if (*o == self->id)
		return __real_pthread_mutex_lock(m); // errorcheck mutex reports
	self->state = ST_MUTEX;
	self->obj   = m;
	yield_to_sched();
	while (*owner_of(m) != -1)
		yield_to_sched();
	self->state  = ST_RUN;
	*owner_of(m) = self->id;
	return __real_pthread_mutex_lock(m);
}

int
__wrap_pthread_mutex_unlock(pthread_mutex_t *m)
{
	if (!self)
		return __real_pthread_mutex_unlock(m);
	int *o = owner_of(m);
	if (*o == self->id)
		*o = -1;
	int rv = __real_pthread_mutex_unlock(m);
	// optional: a scheduling point right after an unlock that enables
	// another thread (one blocked on, or woken towards, this mutex).  For
	// race-free code this adds nothing; it exposes unsynchronised reads
	// made after handing work to another thread.
	// vs_unlock_points == 2: after every unlock (any other thread may run its critical
	// section on this mutex before the code that follows the unlock, at the cost of one
	// preemption instead of two).
	if (vs_unlock_points && window) {
		if (vs_unlock_points >= 2)
			yield_to_sched();
		else
			for (int i = 0; i < NT; i++)
				if (&T[i] != self && T[i].state == ST_MUTEX &&
				    T[i].obj == m) {
					yield_to_sched();
					break;
				}
	}
	return rv;
}

static int
cvwait(pthread_cond_t *c, pthread_mutex_t *m, int64_t dl)
{
	*owner_of(m) = -1;
	__real_pthread_mutex_unlock(m);
	self->state    = ST_CV;
	self->obj      = c;
	self->mtx      = m;
	self->deadline = dl;
	self->timedout = 0;
	self->seq      = ++seqno;
	for (;;) {
		yield_to_sched();
		if (self->state == ST_CV) {
			// resumed while still waiting: the deadline passed
			self->timedout = 1;
			self->state    = ST_MUTEX;
			self->obj      = m;
		}
		if (self->state == ST_MUTEX && *owner_of(m) == -1)
			break;
	}
	self->state    = ST_RUN;
	self->deadline = -1;
	*owner_of(m)   = self->id;
	__real_pthread_mutex_lock(m);
	return self->timedout ? ETIMEDOUT : 0;
}

int
__wrap_pthread_cond_wait(pthread_cond_t *c, pthread_mutex_t *m)
{
	if (!self)
		abort();
	return cvwait(c, m, -1);
}

int
__wrap_pthread_cond_timedwait(
    pthread_cond_t *c, pthread_mutex_t *m, const struct timespec *ts)
{
	if (!self)
		abort();
	return cvwait(c, m, (int64_t) ts->tv_sec * 1000 + ts->tv_nsec / 1000000);
}

int
__wrap_pthread_cond_signal(pthread_cond_t *c)
{
	if (!self)
		return 0;
	vt *w[MAXT];
	int nw = 0;
	for (int i = 0; i < NT; i++)
		if (T[i].state == ST_CV && T[i].obj == c)
			w[nw++] = &T[i];
	if (nw == 0)
		return 0;
	// oldest first
	for (int i = 1; i < nw; i++)
		for (int j = i; j > 0 && w[j]->seq < w[j - 1]->seq; j--) {
			vt *t    = w[j];
			w[j]     = w[j - 1];
			w[j - 1] = t;
		}
	int c1      = choice(VK_WAKE1, nw, 0);
	w[c1]->state = ST_MUTEX;
	w[c1]->obj   = w[c1]->mtx;
	w[c1]->deadline = -1;
	return 0;
}

int
__wrap_pthread_cond_broadcast(pthread_cond_t *c)
{
	if (!self)
		return 0;
	for (int i = 0; i < NT; i++)
		if (T[i].state == ST_CV && T[i].obj == c) {
			T[i].state    = ST_MUTEX;
			T[i].obj      = T[i].mtx;
			T[i].deadline = -1;
		}
	return 0;
}

static void *
tramp(void *a)
{
	vt *t = a;
	self  = t;
	fwait(&t->go);
	void *r  = t->fn(t->arg);
	t->state = ST_DONE;
	yield_to_sched();
	return r;
}

int
__wrap_pthread_create(pthread_t *tp, const pthread_attr_t *at,
    void *(*fn)(void *), void *arg)
{
	if (!self)
		return __real_pthread_create(tp, at, fn, arg);
	if (NT >= MAXT) {
		fprintf(stderr, "VS: too many threads\n");
		child_exit(8);
	}
	vt *t       = &T[NT];
	t->id       = NT;
	t->state    = ST_RUN;
	t->fn       = fn;
	t->arg      = arg;
	t->go       = 0;
	t->deadline = -1;
	NT++;
	int rv = __real_pthread_create(&t->tid, at, tramp, t);
	if (rv != 0) {
		NT--;
		return rv;
	}
	*tp = t->tid;
	// creating a thread is a scheduling point (the child may run first)
	yield_to_sched();
	return 0;
}

int
__wrap_pthread_join(pthread_t tid, void **r)
{
	if (!self)
		return __real_pthread_join(tid, r);
	vt *j = NULL;
	for (int i = 1; i < NT; i++)
		if (pthread_equal(T[i].tid, tid))
			j = &T[i]; // latest with that tid (ids can be reused)
	if (j == NULL)
		return __real_pthread_join(tid, r);
	self->join  = j;
	self->state = ST_JOIN;
	yield_to_sched();
	while (j->state != ST_DONE)
		yield_to_sched();
	self->state = ST_RUN;
	return __real_pthread_join(tid, r);
}

int
__wrap_clock_gettime(clockid_t id, struct timespec *ts)
{
	if (!self)
		return __real_clock_gettime(id, ts);
	if (++clock_calls > 20000) { // spinning on the clock takes time
		clock_calls = 0;
		now_ms++;
	}
	ts->tv_sec  = now_ms / 1000;
	ts->tv_nsec = (now_ms % 1000) * 1000000;
	return 0;
}

int
__wrap_nanosleep(const struct timespec *rq, struct timespec *rm)
{
	if (!self)
		return __real_nanosleep(rq, rm);
	int64_t ms = (int64_t) rq->tv_sec * 1000 + (rq->tv_nsec + 999999) / 1000000;
	vs_sleep((int) ms);
	if (rm) {
		rm->tv_sec  = 0;
		rm->tv_nsec = 0;
	}
	return 0;
}

int
__wrap_epoll_wait(int epfd, struct epoll_event *ev, int n, int tmo)
{
	if (!self || tmo == 0)
		return __real_epoll_wait(epfd, ev, n, tmo);
	self->state = ST_EPOLL;
	self->obj   = (void *) (intptr_t) epfd;
	yield_to_sched();
	while (!epoll_ready(epfd))
		yield_to_sched();
	self->state = ST_RUN;
	int rv      = __real_epoll_wait(epfd, ev, n, 0);
	if (rv == 0) {
		// readiness vanished between poll and wait (closed fd): retry path
		errno = EINTR;
		return -1;
	}
	return rv;
}

// ---- randomness ------------------------------------------------------------
uint32_t
__wrap_nni_random(void)
{
	vs_random_seed = vs_random_seed * 1664525u + 1013904223u;
	return vs_random_seed;
}

// names ending in ".invalid" are answered here (the sandbox has no resolver to ask, and a real lookup
// would block for seconds of real time): the first vs_gai_fail_left lookups fail, later ones give
// 127.0.0.1.  Everything else (numeric hosts) goes to libc.
#include <netdb.h>
int __real_getaddrinfo(const char *, const char *, const struct addrinfo *, struct addrinfo **);
int
__wrap_getaddrinfo(const char *node, const char *service, const struct addrinfo *hints,
    struct addrinfo **res)
{
	size_t n = node ? strlen(node) : 0;
	if (n > 8 && strcmp(node + n - 8, ".invalid") == 0) {
		__atomic_add_fetch(&vs_gai_calls, 1, __ATOMIC_SEQ_CST);
		if (vs_gai_fail_left > 0) {
			vs_gai_fail_left--;
			return EAI_NONAME;
		}
		return __real_getaddrinfo("127.0.0.1", service, hints, res);
	}
	return __real_getaddrinfo(node, service, hints, res);
}

// ---- the poll-descriptor pipe (nni_pollable) ---------------------------------------------
// raising / draining the notification pipe are the visible effects of the lock-free pollable
// protocol; with vs_atomic_points they are scheduling points like its atomic operations
void __real_nni_plat_pipe_raise(int);
void __real_nni_plat_pipe_clear(int);
void
__wrap_nni_plat_pipe_raise(int fd)
{
	if (self && vs_atomic_points && window)
		yield_to_sched();
	__real_nni_plat_pipe_raise(fd);
}
void
__wrap_nni_plat_pipe_clear(int fd)
{
	if (self && vs_atomic_points && window)
		yield_to_sched();
	__real_nni_plat_pipe_clear(fd);
}

// ---- optional: allocator calls as scheduling points -------------------------------------
// (vs_alloc_points: code that rebuilds a structure - allocate, copy, free - without holding the
// lock that its users hold has no synchronisation operation inside; the allocator calls are the
// only places where another thread can be let in)
void *__real_nni_alloc(size_t);
void *__real_nni_zalloc(size_t);
void  __real_nni_free(void *, size_t);
void *
__wrap_nni_alloc(size_t n)
{
	if (self && vs_alloc_points && window)
		yield_to_sched();
	return __real_nni_alloc(n);
}
void *
__wrap_nni_zalloc(size_t n)
{
	if (self && vs_alloc_points && window)
		yield_to_sched();
	return __real_nni_zalloc(n);
}
void
__wrap_nni_free(void *p, size_t n)
{
	__real_nni_free(p, n);
	if (self && vs_alloc_points && window)
		yield_to_sched();
}

// ---- optional: atomics as scheduling points --------------------------------
// (wrappers are generated by macro; each yields before the real operation)
#define ATOMIC_POINT()                              \
	do {                                        \
		if (self && vs_atomic_points && window) \
			yield_to_sched();           \
	} while (0)

typedef struct nni_atomic_flag nni_atomic_flag;
typedef struct nni_atomic_int  nni_atomic_int;
typedef struct nni_atomic_u64  nni_atomic_u64;
typedef struct nni_atomic_bool nni_atomic_bool;
typedef struct nni_atomic_ptr  nni_atomic_ptr;
_Bool __real_nni_atomic_flag_test_and_set(nni_atomic_flag *);
_Bool
__wrap_nni_atomic_flag_test_and_set(nni_atomic_flag *f)
{
	ATOMIC_POINT();
	return __real_nni_atomic_flag_test_and_set(f);
}
int __real_nni_atomic_dec_nv(nni_atomic_int *);
int
__wrap_nni_atomic_dec_nv(nni_atomic_int *v)
{
	ATOMIC_POINT();
	return __real_nni_atomic_dec_nv(v);
}
void __real_nni_atomic_inc(nni_atomic_int *);
void
__wrap_nni_atomic_inc(nni_atomic_int *v)
{
	ATOMIC_POINT();
	__real_nni_atomic_inc(v);
}
void __real_nni_atomic_dec(nni_atomic_int *);
void
__wrap_nni_atomic_dec(nni_atomic_int *v)
{
	ATOMIC_POINT();
	__real_nni_atomic_dec(v);
}
_Bool __real_nni_atomic_cas(nni_atomic_int *, int, int);
_Bool
__wrap_nni_atomic_cas(nni_atomic_int *v, int a, int b)
{
	ATOMIC_POINT();
	return __real_nni_atomic_cas(v, a, b);
}
_Bool __real_nni_atomic_swap_bool(nni_atomic_bool *, _Bool);
_Bool
__wrap_nni_atomic_swap_bool(nni_atomic_bool *v, _Bool b)
{
	ATOMIC_POINT();
	return __real_nni_atomic_swap_bool(v, b);
}
_Bool __real_nni_atomic_get_bool(nni_atomic_bool *);
_Bool
__wrap_nni_atomic_get_bool(nni_atomic_bool *v)
{
	ATOMIC_POINT();
	return __real_nni_atomic_get_bool(v);
}
int __real_nni_atomic_get(nni_atomic_int *);
int
__wrap_nni_atomic_get(nni_atomic_int *v)
{
	ATOMIC_POINT();
	return __real_nni_atomic_get(v);
}

// ---- I/O clamps -----------------------------------------------------------
ssize_t __real_sendmsg(int, const struct msghdr *, int);
ssize_t __real_send(int, const void *, size_t, int);
ssize_t __real_writev(int, const struct iovec *, int);
ssize_t __real_readv(int, const struct iovec *, int);

// returns -1 for "EAGAIN", 0 for "no clamp", else byte limit
static long
io_choice(size_t total)
{
	vs_io_calls++;
	if (!self || !vs_io_points || !window || total == 0)
		return 0;
	int nclamp = 0;
	if (total > 1) {
		nclamp = (int) (total - 1);
		if (nclamp > vs_io_maxclamp)
			nclamp = vs_io_maxclamp + 1; // 1..max, and total-1
	}
	int n = 1 + nclamp + (vs_io_eagain ? 1 : 0);
	int c = choice(VK_IO, n, 0);
	if (c == 0)
		return 0;
	if (c <= nclamp) {
		if (c <= vs_io_maxclamp)
			return c;
		return (long) total - 1;
	}
	return -1;
}

static int
clamp_iov(const struct iovec *in, int niov, struct iovec *out, size_t lim)
{
	int n = 0;
	for (int i = 0; i < niov && lim > 0; i++) {
		out[n] = in[i];
		if (out[n].iov_len > lim)
			out[n].iov_len = lim;
		lim -= out[n].iov_len;
		if (out[n].iov_len > 0)
			n++;
	}
	return n;
}
static size_t
iov_total(const struct iovec *iov, int n)
{
	size_t t = 0;
	for (int i = 0; i < n; i++)
		t += iov[i].iov_len;
	return t;
}

ssize_t
__wrap_sendmsg(int fd, const struct msghdr *h, int fl)
{
	long c = io_choice(iov_total(h->msg_iov, (int) h->msg_iovlen));
	if (c == 0)
		return __real_sendmsg(fd, h, fl);
	if (c < 0) {
		errno = EAGAIN;
		return -1;
	}
	struct iovec  iv[16];
	struct msghdr h2 = *h;
	h2.msg_iovlen    = clamp_iov(h->msg_iov,
	       h->msg_iovlen > 16 ? 16 : (int) h->msg_iovlen, iv, (size_t) c);
	h2.msg_iov       = iv;
	return __real_sendmsg(fd, &h2, fl);
}
ssize_t
__wrap_send(int fd, const void *b, size_t len, int fl)
{
	long c = io_choice(len);
	if (c == 0)
		return __real_send(fd, b, len, fl);
	if (c < 0) {
		errno = EAGAIN;
		return -1;
	}
	return __real_send(fd, b, (size_t) c, fl);
}
ssize_t
__wrap_writev(int fd, const struct iovec *iov, int n)
{
	long c = io_choice(iov_total(iov, n));
	if (c == 0)
		return __real_writev(fd, iov, n);
	if (c < 0) {
		errno = EAGAIN;
		return -1;
	}
	struct iovec iv[16];
	int          m = clamp_iov(iov, n > 16 ? 16 : n, iv, (size_t) c);
	return __real_writev(fd, iv, m);
}
ssize_t
__wrap_readv(int fd, const struct iovec *iov, int n)
{
	long c = io_choice(iov_total(iov, n));
	if (c == 0)
		return __real_readv(fd, iov, n);
	if (c < 0) {
		errno = EAGAIN;
		return -1;
	}
	struct iovec iv[16];
	int          m = clamp_iov(iov, n > 16 ? 16 : n, iv, (size_t) c);
	return __real_readv(fd, iv, m);
}

// ---- harness API -----------------------------------------------------------
static void
vs_child_init(wres *w, const item *pfx)
{
	memset(T, 0, sizeof(T));
	NT             = 1;
	self           = &T[0];
	self->state    = ST_RUN;
	self->deadline = -1;
	self->tid      = pthread_self();
	W              = w;
	PFX            = pfx;
	pfx_pos        = 0;
	window         = 0;
	vs_in_child    = 1;
}

void
vs_settle(void)
{
	self->state = ST_IDLE;
	yield_to_sched();
	self->state = ST_RUN;
}

void
vs_sleep(int ms)
{
	self->state    = ST_SLEEP;
	self->deadline = now_ms + ms;
	yield_to_sched();
	while (!enabled(self))
		yield_to_sched();
	self->state    = ST_RUN;
	self->deadline = -1;
}

int64_t
vs_now(void)
{
	return now_ms;
}

void
vs_window(int on)
{
	window = on;
}

int
vs_choose(int kind, int n)
{
	int save = window;
	window   = 1;
	int c    = choice(kind, n, 0);
	window   = save;
	return c;
}

void
vs_log(const char *fmt, ...)
{
	if (!W)
		return;
	va_list ap;
	va_start(ap, fmt);
	int room = LOGSZ - W->loglen - 2;
	if (room > 0) {
		int n = vsnprintf(W->log + W->loglen, (size_t) room, fmt, ap);
		if (n > room)
			n = room;
		W->loglen += n;
		W->log[W->loglen++] = '\n';
		W->log[W->loglen]   = 0;
	}
	va_end(ap);
}

void
vs_outcome(const char *fmt, ...)
{
	if (!W)
		return;
	va_list ap;
	va_start(ap, fmt);
	vsnprintf(W->outcome, sizeof(W->outcome), fmt, ap);
	va_end(ap);
}

void
vs_nontrivial(void)
{
	if (W)
		W->nontrivial++;
}

// one enumerated case inside a batched execution
void
vs_case(void)
{
	if (W)
		W->cases++;
}

void
vs_fail(const char *clause, const char *fmt, ...)
{
	va_list ap;
	va_start(ap, fmt);
	if (W) {
		W->failed = 1;
		snprintf(W->clause, sizeof(W->clause), "%s", clause);
		vsnprintf(W->msg, sizeof(W->msg), fmt, ap);
		fprintf(stderr, "VS-FAIL %s: %s\n", W->clause, W->msg);
	}
	va_end(ap);
	child_exit(10);
}

// record a violation but let the execution continue (used where a known
// defect would otherwise cut off the exploration behind it)
void
vs_soft_fail(const char *clause, const char *fmt, ...)
{
	va_list ap;
	va_start(ap, fmt);
	if (W && !W->soft_clause[0]) {
		snprintf(W->soft_clause, sizeof(W->soft_clause), "%s", clause);
		vsnprintf(W->soft_msg, sizeof(W->soft_msg), fmt, ap);
	}
	va_end(ap);
}

const char *
__asan_default_options(void)
{
	return "detect_leaks=0:exitcode=77:abort_on_error=0:"
	       "allocator_may_return_null=1:detect_stack_use_after_return=0:"
	       "handle_abort=0:fast_unwind_on_malloc=1:malloc_context_size=12:"
	       // a single allocation above 256 MB fails (hostile length fields with RECVMAXSZ 0 ask
	       // for gigabytes; mapping and poisoning them costs seconds per case and says nothing new)
	       "max_allocation_size_mb=256";
}
const char *
__ubsan_default_options(void)
{
	return "print_stacktrace=1:exitcode=77";
}

// ============================================================================
// E2: explorer (parent side)
// ============================================================================
#define POOL_ITEMS (6u << 20)
#define MAXLEVEL   12
#define MAXOUT     512
#define MAXSIG     256

typedef struct sigrec {
	char sig[200];
	char msg[600];
	char replay[256];
	long count;
	int  ndev;
	int  reproduced;
} sigrec;

typedef struct shared {
	volatile int lock;
	int32_t      head[MAXLEVEL];
	long         pending[MAXLEVEL]; // queued + running per level
	int32_t      freelist;
	uint32_t     pool_used;
	int          active;
	int          stop;
	long         executions, steps, switches, nontrivial, hangs, nodes,
	    io_calls, cases;
	long         level_exec[MAXLEVEL];
	int          maxdepth;
	int          nout;
	char         out[MAXOUT][128];
	long         outcnt[MAXOUT];
	int          nsig;
	sigrec       sig[MAXSIG];
	int          pool_overflow, cp_overflow, diverged, flaky, slow;
	int          nsample;
	char         sample[8][400];
} shared;

static shared *S;
static item   *POOL;
static wres   *WR; // per worker result areas

static struct {
	const char *prop, *tier, *outpath, *replay, *only;
	int         workers;
	double      t0, deadline;
	char        rundir[256];
	// accumulated over scenarios
	long   cases;
	long   executions, nodes, steps, switches, nontrivial, hangs, states,
	    transitions, traces, fevals, fnontriv;
	int    scenarios;
	int    exhaustive, determinism_ok, vacuous;
	int    nsig;
	sigrec sig[MAXSIG];
	int    nsamples;
	char   samples[24][400];
	int    nnotes;
	char   notes[32][2][400];
	int    machinery_errors;
	char   unrep[16][260];
	int    nunrep;
	char  *scen_json;
	int    scen_len, scen_cap;
} G;

static double
wall(void)
{
	struct timespec ts;
	__real_clock_gettime(CLOCK_MONOTONIC, &ts);
	return ts.tv_sec + ts.tv_nsec / 1e9;
}

static void
slock(void)
{
	int spins = 0;
	while (__atomic_exchange_n(&S->lock, 1, __ATOMIC_ACQUIRE))
		while (S->lock) {
			__builtin_ia32_pause();
			if (++spins > 200) { // oversubscribed machine: do not burn CPU
				sched_yield();
				spins = 0;
			}
		}
}
static void
sunlock(void)
{
	__atomic_store_n(&S->lock, 0, __ATOMIC_RELEASE);
}

static int32_t
item_alloc(void)
{
	int32_t i;
	if (S->freelist >= 0) {
		i           = S->freelist;
		S->freelist = POOL[i].next;
		return i;
	}
	if (S->pool_used >= POOL_ITEMS)
		return -1;
	return (int32_t) S->pool_used++;
}

static void
json_str(FILE *f, const char *s)
{
	fputc('"', f);
	for (; *s; s++) {
		unsigned char c = (unsigned char) *s;
		if (c == '"' || c == '\\')
			fprintf(f, "\\%c", c);
		else if (c == '\n')
			fputs("\\n", f);
		else if (c < 0x20 || c >= 0x7f)
			fprintf(f, "\\u%04x", c);
		else
			fputc(c, f);
	}
	fputc('"', f);
}

static const char *clsname[VB_NB] = { "preempt", "switch", "timer", "wake1",
	"io", "alloc", "env" };

static int
dev_class(const cprec *r, int alt)
{
	switch (r->kind) {
	case VK_SCHED:
		if ((r->flags & 2) && alt == r->n - 1)
			return VB_TIMER;
		return (r->flags & 1) ? VB_PREEMPT : VB_SWITCH;
	case VK_WAKE1:
		return VB_WAKE1;
	case VK_IO:
		return VB_IO;
	case VK_ALLOC:
		return VB_ALLOC;
	default:
		return VB_ENV;
	}
}

// run one execution described by `it` in a forked child; result in *w
// returns child status class: 0 ok, 1 fail(vs_fail), 2 crash/sanitizer,
// 3 deadlock, 4 livelock, 5 hang(watchdog), 9 divergence
static int
run_one(const vx_cfg *cfg, const item *it, wres *w, int errfd, int watchdog)
{
	w->ncp = 0;
	w->cp_overflow = w->finished = w->failed = w->nontrivial = 0;
	w->cases = 0;
	w->steps = w->switches = w->io_calls = 0;
	w->outcome[0] = w->clause[0] = w->msg[0] = 0;
	w->soft_clause[0] = w->soft_msg[0] = 0;
	w->loglen = 0;
	w->log[0] = 0;
	if (ftruncate(errfd, 0) != 0) {
	}
	lseek(errfd, 0, SEEK_SET);
	pid_t pid = fork();
	if (pid == 0) {
		dup2(errfd, 2);
		dup2(errfd, 1); // nni_panic prints on stdout
		setvbuf(stdout, NULL, _IONBF, 0);
		alarm((unsigned) watchdog);
		vs_child_init(w, it);
		cfg->run(cfg->arg);
		w->finished = 1;
		child_exit(0);
	}
	int st = 0;
	while (waitpid(pid, &st, 0) < 0 && errno == EINTR)
		;
	if (WIFSIGNALED(st)) {
		if (WTERMSIG(st) == SIGALRM)
			return 5;
		return 2;
	}
	switch (WEXITSTATUS(st)) {
	case 0:
		return w->finished ? 0 : 2;
	case 10:
		return 1;
	case 3:
		return 3;
	case 4:
		return 4;
	case 9:
		return 9;
	default:
		return 2;
	}
}

static void
read_err(int errfd, char *buf, size_t sz)
{
	off_t len = lseek(errfd, 0, SEEK_END);
	off_t off = 0;
	if (len > (off_t) sz - 1)
		off = 0; // keep the head: the first report is what matters
	lseek(errfd, off, SEEK_SET);
	ssize_t n = read(errfd, buf, sz - 1);
	buf[n > 0 ? n : 0] = 0;
}

// Build a structured signature from a crashed child's stderr.
static void
crash_signature(const char *err, char *sig, size_t sz, char *msg, size_t msz)
{
	const char *p;
	char        kind[96] = "crash";
	if ((p = strstr(err, "ERROR: AddressSanitizer: ")) != NULL) {
		p += strlen("ERROR: AddressSanitizer: ");
		int i = 0;
		while (p[i] && p[i] != ' ' && p[i] != '\n' && i < 60) {
			kind[i] = p[i];
			i++;
		}
		kind[i] = 0;
		char tmp[96];
		snprintf(tmp, sizeof(tmp), "asan:%.80s", kind);
		strcpy(kind, tmp);
	} else if ((p = strstr(err, "runtime error: ")) != NULL) {
		p += strlen("runtime error: ");
		int  i = 0;
		char t[64];
		while (p[i] && p[i] != '\n' && i < 40) {
			t[i] = (p[i] >= '0' && p[i] <= '9') ? '#' : p[i];
			i++;
		}
		t[i] = 0;
		snprintf(kind, sizeof(kind), "ubsan:%s", t);
	} else if ((p = strstr(err, "panic: ")) != NULL ||
	    (p = strstr(err, "Panic: ")) != NULL) {
		int  i = 0;
		char t[64];
		p += 7;
		while (p[i] && p[i] != '\n' && i < 50) {
			t[i] = (p[i] >= '0' && p[i] <= '9') ? '#' : p[i];
			i++;
		}
		t[i] = 0;
		snprintf(kind, sizeof(kind), "panic:%s", t);
	} else if (strstr(err, "VS-DEADLOCK")) {
		snprintf(kind, sizeof(kind), "deadlock");
	} else if (strstr(err, "AddressSanitizer:DEADLYSIGNAL") ||
	    strstr(err, "SEGV")) {
		snprintf(kind, sizeof(kind), "asan:SEGV");
	}
	// top frames: "    #N 0x... in func file:line"
	char frames[160] = "";
	int  nf          = 0;
	p                = err;
	while (nf < 3 && (p = strstr(p, " in ")) != NULL) {
		p += 4;
		char f[64];
		int  i = 0;
		while (p[i] && p[i] != ' ' && p[i] != '\n' && p[i] != '(' && i < 60) {
			f[i] = p[i];
			i++;
		}
		f[i] = 0;
		if (strncmp(f, "__", 2) == 0 || strstr(f, "interceptor") ||
		    strcmp(f, "free") == 0 || strcmp(f, "malloc") == 0 ||
		    strcmp(f, "calloc") == 0 || strcmp(f, "memcpy") == 0 ||
		    strcmp(f, "memmove") == 0 || strcmp(f, "abort") == 0 ||
		    strcmp(f, "raise") == 0 || strncmp(f, "va_", 3) == 0 ||
		    strncmp(f, "vs_", 3) == 0 || f[0] == 0)
			continue;
		if (nf)
			strncat(frames, "<", sizeof(frames) - strlen(frames) - 1);
		strncat(frames, f, sizeof(frames) - strlen(frames) - 1);
		nf++;
	}
	snprintf(sig, sz, "%s@%s", kind, frames);
	// message = first 500 bytes of stderr
	snprintf(msg, msz, "%.500s", err);
}

static void
write_replay(const vx_cfg *cfg, const item *it, const char *sig,
    const char *msg, const wres *w, const char *err, char *path, size_t psz)
{
	static int seq;
	mkdir("out", 0755);
	mkdir("out/replay", 0755);
	snprintf(path, psz, "out/replay/%s-%s-%d-%d.json", cfg->prop,
	    cfg->scenario, (int) getpid(), seq++);
	FILE *f = fopen(path, "w");
	if (!f)
		return;
	fprintf(f, "{\"property\":\"%s\",\"scenario\":\"%s\",\"tier\":\"%s\",",
	    cfg->prop, cfg->scenario, G.tier);
	fprintf(f, "\"signature\":");
	json_str(f, sig);
	fprintf(f, ",\"message\":");
	json_str(f, msg);
	fprintf(f, ",\"choices\":[");
	for (int i = 0; i < it->ndev; i++)
		fprintf(f, "%s[%u,%u,%u,%u]", i ? "," : "", it->d[i].idx,
		    it->d[i].alt, it->d[i].n, it->d[i].kind);
	fprintf(f, "],\"log\":");
	json_str(f, w->log);
	fprintf(f, ",\"stderr\":");
	char e2[3000];
	snprintf(e2, sizeof(e2), "%.2900s", err ? err : "");
	json_str(f, e2);
	fprintf(f, "}\n");
	fclose(f);
}

static void
record_sig(const char *sig, const char *msg, const char *replay, int ndev,
    int reproduced)
{
	// caller holds lock
	for (int i = 0; i < S->nsig; i++)
		if (strcmp(S->sig[i].sig, sig) == 0) {
			S->sig[i].count++;
			if (!S->sig[i].reproduced && reproduced) {
				// an earlier occurrence did not replay, this one did
				sigrec *r = &S->sig[i];
				snprintf(r->msg, sizeof(r->msg), "%s", msg);
				snprintf(r->replay, sizeof(r->replay), "%s", replay);
				r->ndev       = ndev;
				r->reproduced = 1;
			}
			return;
		}
	if (S->nsig >= MAXSIG)
		return;
	sigrec *r = &S->sig[S->nsig++];
	snprintf(r->sig, sizeof(r->sig), "%s", sig);
	snprintf(r->msg, sizeof(r->msg), "%s", msg);
	snprintf(r->replay, sizeof(r->replay), "%s", replay);
	r->count      = 1;
	r->ndev       = ndev;
	r->reproduced = reproduced;
}

static int
sig_known(const char *sig)
{
	for (int i = 0; i < S->nsig; i++)
		if (strcmp(S->sig[i].sig, sig) == 0)
			return S->sig[i].reproduced || S->sig[i].count >= 4;
	return 0;
}

static void
fmt_choices(const item *it, char *buf, size_t sz)
{
	size_t o = 0;
	buf[0]   = 0;
	for (int i = 0; i < it->ndev && o + 24 < sz; i++)
		o += (size_t) snprintf(buf + o, sz - o, "%s%u:%s=%u", i ? " " : "",
		    it->d[i].idx, clsname[it->d[i].cls], it->d[i].alt);
}

static void
worker(const vx_cfg *cfg, int wi)
{
	wres *w     = &WR[wi];
	int   errfd = memfd_create("vserr", 0);
	char *err   = malloc(1 << 16);
	item  cur;
	for (;;) {
		slock();
		if (S->stop) {
			sunlock();
			break;
		}
		int32_t idx = -1;
		int     lv;
		for (lv = 0; lv < MAXLEVEL; lv++)
			if (S->head[lv] >= 0) {
				idx         = S->head[lv];
				S->head[lv] = POOL[idx].next;
				break;
			}
		if (idx < 0) {
			int act = S->active;
			sunlock();
			if (act == 0)
				break;
			usleep(300);
			continue;
		}
		cur            = POOL[idx];
		POOL[idx].next = S->freelist;
		S->freelist    = idx;
		S->active++;
		sunlock();

		int rc = run_one(cfg, &cur, w, errfd, cfg->watchdog_s);
		if (rc == 5) {
			// the real-time watchdog says nothing about the library when the
			// machine is loaded: run the same execution again with three times
			// the limit and use that run (its choice points are complete).
			// Only an execution that exceeds the long limit too is a hang.
			slock();
			S->slow++;
			sunlock();
			rc = run_one(cfg, &cur, w, errfd, cfg->watchdog_s * 3);
		}
		int ncp = w->ncp;

		char sig[200] = "", msg[600] = "", rpath[256] = "";
		int  bad = 0;
		if (rc == 0 && w->soft_clause[0]) {
			// completed, but recorded a (soft) violation on the way
			snprintf(sig, sizeof(sig), "%s", w->soft_clause);
			snprintf(msg, sizeof(msg), "%s", w->soft_msg);
			slock();
			int known = sig_known(sig);
			sunlock();
			if (!known) {
				read_err(errfd, err, 1 << 16);
				write_replay(cfg, &cur, sig, msg, w, err, rpath,
				    sizeof(rpath));
			}
			slock();
			record_sig(sig, msg, rpath, cur.ndev, 1);
			sunlock();
		}
		if (rc == 9) {
			slock();
			S->diverged++;
			sunlock();
			read_err(errfd, err, 1 << 16);
			fprintf(stderr, "[vs] replay divergence in %s: %s\n",
			    cfg->scenario, err);
		} else if (rc != 0) {
			bad = 1;
			read_err(errfd, err, 1 << 16);
			if (rc == 1) {
				snprintf(sig, sizeof(sig), "%s", w->clause);
				snprintf(msg, sizeof(msg), "%s", w->msg);
			} else if (rc == 3) {
				snprintf(sig, sizeof(sig), "deadlock@%s", cfg->scenario);
				snprintf(msg, sizeof(msg), "%.500s", err);
			} else if (rc == 4) {
				snprintf(sig, sizeof(sig), "livelock@%s", cfg->scenario);
				snprintf(msg, sizeof(msg), "%.500s", err);
			} else if (rc == 5) {
				snprintf(sig, sizeof(sig), "hang@%s", cfg->scenario);
				snprintf(msg, sizeof(msg),
				    "watchdog %ds expired", cfg->watchdog_s);
			} else {
				crash_signature(
				    err, sig, sizeof(sig), msg, sizeof(msg));
			}
			{
				// fault-injection context (valloc logs the failed site)
				const char *as = strstr(w->log, "ALLOC-FAIL site=");
				if (as) {
					char   site[120];
					size_t i = 0;
					as += 16;
					while (as[i] && as[i] != '\n' && i < sizeof(site) - 1) {
						site[i] = as[i];
						i++;
					}
					site[i]  = 0;
					size_t l = strlen(sig);
					snprintf(sig + l, sizeof(sig) - l, "|site=%s", site);
				}
			}
			slock();
			int known = sig_known(sig);
			sunlock();
			if (!known) {
				// replay alone before reporting
				wres *w2 = malloc(sizeof(wres));
				// result areas must be shared: use a fresh mapping
				wres *ws = mmap(NULL, sizeof(wres),
				    PROT_READ | PROT_WRITE,
				    MAP_SHARED | MAP_ANONYMOUS, -1, 0);
				int efd2 = memfd_create("vserr2", 0);
				int rc2 = 0, same = 0;
				// the same choice list must fail the same way when run
				// alone; up to three attempts (loopback TCP scenarios see
				// the kernel's delivery timing on a loaded machine)
				for (int attempt = 0; attempt < 3 && !same; attempt++) {
					rc2 = run_one(cfg, &cur, ws, efd2,
					    cfg->watchdog_s * 3);
					same = (rc2 == rc);
					if (same && rc == 1)
						same = strcmp(ws->clause, w->clause) == 0;
				}
				munmap(ws, sizeof(wres));
				close(efd2);
				free(w2);
				write_replay(cfg, &cur, sig, msg, w, err, rpath,
				    sizeof(rpath));
				slock();
				if (!same)
					S->flaky++;
				record_sig(sig, msg, rpath, cur.ndev, same);
				sunlock();
				if (!same)
					fprintf(stderr,
					    "[vs] NOT REPRODUCED on replay: %s (%s) "
					    "rc=%d rc2=%d\n",
					    sig, rpath, rc, rc2);
			} else {
				slock();
				record_sig(sig, msg, "", cur.ndev, 1);
				sunlock();
			}
		}

		// generate children
		slock();
		S->executions++;
		S->level_exec[cur.level]++;
		S->steps += w->steps;
		S->switches += w->switches;
		S->io_calls += w->io_calls;
		S->nodes += ncp;
		S->cases += w->cases ? w->cases : 1;
		S->nontrivial += w->cases ? w->nontrivial : (w->nontrivial ? 1 : 0);
		if (rc == 5)
			S->hangs++;
		if (w->cp_overflow)
			S->cp_overflow++;
		if (cur.ndev > S->maxdepth)
			S->maxdepth = cur.ndev;
		if (rc == 0 || rc == 1) {
			const char *o = w->outcome[0] ? w->outcome : "(none)";
			if (bad)
				o = "(violation)";
			int k;
			for (k = 0; k < S->nout; k++)
				if (strcmp(S->out[k], o) == 0)
					break;
			if (k == S->nout && S->nout < MAXOUT) {
				snprintf(S->out[k], sizeof(S->out[k]), "%s", o);
				S->outcnt[k] = 0;
				S->nout++;
			}
			if (k < MAXOUT)
				S->outcnt[k]++;
		}
		if (S->nsample < 8 &&
		    (S->executions == 1 || (S->executions % 997) == 0 ||
		        cur.ndev >= 2)) {
			char cb[200];
			fmt_choices(&cur, cb, sizeof(cb));
			snprintf(S->sample[S->nsample], sizeof(S->sample[0]),
			    "%s choices=[%s] outcome=%s log=%.180s", cfg->scenario,
			    cb, w->outcome, w->log);
			S->nsample++;
		}
		if (rc != 9 && !(cfg->max_exec && S->executions >= cfg->max_exec)) {
			uint32_t start =
			    cur.ndev ? cur.d[cur.ndev - 1].idx + 1 : 0;
			// push in reverse so that lower indices are explored first
			for (int i = ncp - 1; i >= (int) start; i--) {
				const cprec *r = &w->rec[i];
				for (int alt = r->n - 1; alt >= 1; alt--) {
					int cls = dev_class(r, alt);
					int lvl = cur.level;
					if (cls != VB_ENV) {
						int b = cfg->budget[cls];
						if (b >= 0 && cur.used[cls] + 1 > b)
							continue;
						if (cfg->total >= 0 &&
						    cur.level + 1 > cfg->total)
							continue;
						lvl++;
					}
					if (cur.ndev >= MAXDEV || lvl >= MAXLEVEL)
						continue;
					int32_t ni = item_alloc();
					if (ni < 0) {
						S->pool_overflow++;
						continue;
					}
					item *c = &POOL[ni];
					memcpy(c, &cur,
					    offsetof(item, d) +
					        sizeof(dev) * cur.ndev);
					c->d[c->ndev].idx  = (uint32_t) i;
					c->d[c->ndev].alt  = (uint16_t) alt;
					c->d[c->ndev].n    = r->n;
					c->d[c->ndev].kind = r->kind;
					c->d[c->ndev].cls  = (uint8_t) cls;
					c->ndev++;
					if (cls != VB_ENV)
						c->used[cls]++;
					c->level     = (uint8_t) lvl;
					c->next      = S->head[lvl];
					S->head[lvl] = ni;
					S->pending[lvl]++;
				}
			}
		}
		S->pending[cur.level]--;
		S->active--;
		if (wall() > G.deadline)
			S->stop = 1;
		if (cfg->max_exec && S->executions >= cfg->max_exec)
			S->stop = 1;
		sunlock();
	}
	free(err);
	close(errfd);
}

const char *
vx_tier(void)
{
	return G.tier;
}
int
vx_is_thorough(void)
{
	return strcmp(G.tier, "thorough") == 0;
}
double
vx_time_left(void)
{
	return G.deadline - wall();
}
const char *
vx_rundir(void)
{
	return G.rundir;
}

static int replay_file(const vx_cfg *cfg);

void
vx_init(int argc, char **argv, const char *prop)
{
	memset(&G, 0, sizeof(G));
	G.prop           = prop;
	G.tier           = "quick";
	G.outpath        = "build/result.json";
	G.workers        = 16;
	G.exhaustive     = 1;
	G.determinism_ok = 1;
	G.t0             = wall();
	if (getenv("VS_UNLOCK_POINTS")) // experiment switch: default for all scenarios
		vs_unlock_points = atoi(getenv("VS_UNLOCK_POINTS"));
	double dl        = -1;
	for (int i = 1; i < argc; i++) {
		if (!strcmp(argv[i], "--tier") && i + 1 < argc)
			G.tier = argv[++i];
		else if (!strcmp(argv[i], "--out") && i + 1 < argc)
			G.outpath = argv[++i];
		else if (!strcmp(argv[i], "--replay") && i + 1 < argc)
			G.replay = argv[++i];
		else if (!strcmp(argv[i], "--only") && i + 1 < argc)
			G.only = argv[++i];
		else if (!strcmp(argv[i], "--workers") && i + 1 < argc)
			G.workers = atoi(argv[++i]);
		else if (!strcmp(argv[i], "--deadline") && i + 1 < argc)
			dl = atof(argv[++i]);
	}
	if (getenv("VERIF_TIER") && !G.tier[0])
		G.tier = getenv("VERIF_TIER");
	if (dl < 0) {
		const char *e = getenv("VERIF_DEADLINE_S");
		dl = e ? atof(e) : (vx_is_thorough() ? 1500 : 150);
	}
	G.deadline = G.t0 + dl;
	snprintf(G.rundir, sizeof(G.rundir), "/verif/build/run/%d", (int) getpid());
	mkdir("/verif/build", 0755);
	mkdir("/verif/build/run", 0755);
	mkdir(G.rundir, 0755);
	setvbuf(stdout, NULL, _IOLBF, 0);
	signal(SIGPIPE, SIG_IGN);
}

void
vx_sample(const char *fmt, ...)
{
	if (G.nsamples >= 24)
		return;
	va_list ap;
	va_start(ap, fmt);
	vsnprintf(G.samples[G.nsamples++], sizeof(G.samples[0]), fmt, ap);
	va_end(ap);
}

void
vx_note(const char *key, const char *fmt, ...)
{
	if (G.nnotes >= 32)
		return;
	va_list ap;
	va_start(ap, fmt);
	snprintf(G.notes[G.nnotes][0], sizeof(G.notes[0][0]), "%s", key);
	vsnprintf(G.notes[G.nnotes][1], sizeof(G.notes[0][1]), fmt, ap);
	G.nnotes++;
	va_end(ap);
}

void
vx_violation(const char *sig, const char *fmt, ...)
{
	va_list ap;
	va_start(ap, fmt);
	for (int i = 0; i < G.nsig; i++)
		if (strcmp(G.sig[i].sig, sig) == 0) {
			G.sig[i].count++;
			va_end(ap);
			return;
		}
	if (G.nsig < MAXSIG) {
		sigrec *r = &G.sig[G.nsig++];
		memset(r, 0, sizeof(*r));
		snprintf(r->sig, sizeof(r->sig), "%s", sig);
		vsnprintf(r->msg, sizeof(r->msg), fmt, ap);
		r->count      = 1;
		r->reproduced = 1;
		// replay artefact: the message itself is the minimal history
		static int seq;
		mkdir("out", 0755);
		mkdir("out/replay", 0755);
		snprintf(r->replay, sizeof(r->replay),
		    "out/replay/%s-direct-%d-%d.json", G.prop, (int) getpid(),
		    seq++);
		FILE *f = fopen(r->replay, "w");
		if (f) {
			fprintf(f, "{\"property\":\"%s\",\"signature\":", G.prop);
			json_str(f, r->sig);
			fprintf(f, ",\"message\":");
			json_str(f, r->msg);
			fprintf(f, "}\n");
			fclose(f);
		}
	}
	va_end(ap);
}

void
vx_add_counts(long states, long transitions, long traces)
{
	G.states += states;
	G.transitions += transitions;
	G.traces += traces;
}
void
vx_set_exhaustive(int yes)
{
	G.exhaustive = yes;
}
void
vx_add_fault_counts(long evaluations, long nontrivial)
{
	G.fevals += evaluations;
	G.fnontriv += nontrivial;
}

int
vx_explore(const vx_cfg *cfg0, vx_stats *out)
{
	vx_cfg cfg = *cfg0;
	if (cfg.workers <= 0)
		cfg.workers = G.workers;
	if (cfg.watchdog_s <= 0)
		cfg.watchdog_s = 20;
	if (G.replay)
		return replay_file(&cfg);
	if (G.only && !strstr(cfg.scenario, G.only))
		return 0;
	double t0 = wall();
	if (cfg.deadline_s > 0 && t0 + cfg.deadline_s < G.deadline) {
		// per-scenario deadline handled through G.deadline swap below
	}
	double save_deadline = G.deadline;
	if (cfg.deadline_s > 0 && t0 + cfg.deadline_s < G.deadline)
		G.deadline = t0 + cfg.deadline_s;

	size_t poolsz = (size_t) POOL_ITEMS * sizeof(item);
	S = mmap(NULL, sizeof(shared), PROT_READ | PROT_WRITE,
	    MAP_SHARED | MAP_ANONYMOUS, -1, 0);
	POOL = mmap(NULL, poolsz, PROT_READ | PROT_WRITE,
	    MAP_SHARED | MAP_ANONYMOUS | MAP_NORESERVE, -1, 0);
	WR = mmap(NULL, sizeof(wres) * (size_t) (cfg.workers + 1),
	    PROT_READ | PROT_WRITE, MAP_SHARED | MAP_ANONYMOUS | MAP_NORESERVE,
	    -1, 0);
	if (S == MAP_FAILED || POOL == MAP_FAILED || WR == MAP_FAILED) {
		perror("mmap");
		exit(2);
	}
	memset(S, 0, sizeof(*S));
	for (int i = 0; i < MAXLEVEL; i++)
		S->head[i] = -1;
	S->freelist = -1;

	// determinism obligation: the default execution twice, same digest
	{
		item root;
		memset(&root, 0, sizeof(root));
		int   efd = memfd_create("vserr0", 0);
		wres *a   = &WR[cfg.workers];
		int   rc1 = run_one(&cfg, &root, a, efd, cfg.watchdog_s * 3);
		int   ncp1 = a->ncp;
		long  st1  = a->steps;
		char *l1   = strdup(a->log);
		int   rc2  = run_one(&cfg, &root, a, efd, cfg.watchdog_s * 3);
		if (rc1 != rc2 || ncp1 != a->ncp || st1 != a->steps ||
		    strcmp(l1, a->log) != 0) {
			fprintf(stderr,
			    "[vs] %s/%s: default execution not deterministic "
			    "(rc %d/%d ncp %d/%d steps %ld/%ld)\n",
			    cfg.prop, cfg.scenario, rc1, rc2, ncp1, a->ncp, st1,
			    a->steps);
			G.determinism_ok = 0;
			G.machinery_errors++;
		}
		free(l1);
		close(efd);
	}

	int32_t r = item_alloc();
	memset(&POOL[r], 0, sizeof(item));
	POOL[r].next  = -1;
	S->head[0]    = r;
	S->pending[0] = 1;

	pid_t pids[64];
	int   nw = cfg.workers > 64 ? 64 : cfg.workers;
	fflush(NULL);
	for (int i = 0; i < nw; i++) {
		pids[i] = fork();
		if (pids[i] == 0) {
			worker(&cfg, i);
			_exit(0);
		}
	}
	for (int i = 0; i < nw; i++) {
		int st;
		waitpid(pids[i], &st, 0);
		if (!WIFEXITED(st) || WEXITSTATUS(st) != 0) {
			fprintf(stderr, "[vs] worker %d died (st=%x)\n", i, st);
			G.machinery_errors++;
		}
	}

	vx_stats st;
	memset(&st, 0, sizeof(st));
	st.executions = S->executions;
	st.nodes      = S->nodes;
	st.steps      = S->steps;
	st.switches   = S->switches;
	st.nontrivial = S->nontrivial;
	st.hangs      = S->hangs;
	int slow_retried = S->slow;
	st.outcomes   = S->nout;
	st.maxdepth   = S->maxdepth;
	st.io_calls   = S->io_calls;
	st.wall_s     = wall() - t0;
	int complete  = -1;
	int drained   = 1;
	for (int lv = 0; lv < MAXLEVEL; lv++) {
		if (S->pending[lv] > 0 || S->head[lv] >= 0) {
			drained = 0;
			break;
		}
		if (S->level_exec[lv] > 0)
			complete = lv;
	}
	st.completed_level = complete;
	st.exhaustive = drained && !S->pool_overflow && !S->cp_overflow &&
	    !S->stop;
	if (S->stop && drained)
		st.exhaustive = !S->pool_overflow && !S->cp_overflow;
	st.determinism_ok = G.determinism_ok;
	st.violations     = S->nsig;
	if (S->diverged)
		G.machinery_errors += S->diverged;
	// failures that never failed again when their choice list was run alone
	// (three attempts each) are not reported as violations: they are listed
	// in the result as unreproduced observations
	for (int i = 0; i < S->nsig; i++)
		if (!S->sig[i].reproduced && G.nunrep < 16) {
			snprintf(G.unrep[G.nunrep], sizeof(G.unrep[0]), "%s/%s x%ld",
			    cfg.scenario, S->sig[i].sig, S->sig[i].count);
			G.nunrep++;
		}

	// merge into global
	G.executions += st.executions;
	G.nodes += st.nodes;
	G.steps += st.steps;
	G.switches += st.switches;
	G.nontrivial += st.nontrivial;
	G.cases += S->cases;
	G.hangs += st.hangs;
	G.scenarios++;
	if (!st.exhaustive)
		G.exhaustive = 0;
	if (st.executions > 20 && st.outcomes < 2)
		G.vacuous++;
	for (int i = 0; i < S->nsig; i++) {
		if (!S->sig[i].reproduced)
			continue;
		int k;
		for (k = 0; k < G.nsig; k++)
			if (strcmp(G.sig[k].sig, S->sig[i].sig) == 0)
				break;
		if (k == G.nsig && G.nsig < MAXSIG)
			G.sig[G.nsig++] = S->sig[i];
		else if (k < G.nsig)
			G.sig[k].count += S->sig[i].count;
	}
	for (int i = 0; i < S->nsample && G.nsamples < 24; i++)
		snprintf(G.samples[G.nsamples++], sizeof(G.samples[0]), "%s",
		    S->sample[i]);
	// per-scenario json fragment
	{
		char  ob[1200] = "";
		size_t o       = 0;
		for (int i = 0; i < S->nout && i < 12 && o + 160 < sizeof(ob); i++)
			o += (size_t) snprintf(ob + o, sizeof(ob) - o,
			    "%s\"%.100s\":%ld", i ? "," : "", S->out[i],
			    S->outcnt[i]);
		char bb[200] = "";
		o            = 0;
		for (int i = 0; i < VB_NB - 1; i++)
			o += (size_t) snprintf(bb + o, sizeof(bb) - o, "%s\"%s\":%d",
			    i ? "," : "", clsname[i], cfg.budget[i]);
		char lv[200] = "";
		o            = 0;
		for (int i = 0; i < MAXLEVEL && S->level_exec[i]; i++)
			o += (size_t) snprintf(lv + o, sizeof(lv) - o, "%s%ld",
			    i ? "," : "", S->level_exec[i]);
		if (G.scen_cap - G.scen_len < 4096) {
			G.scen_cap   = G.scen_cap * 2 + 8192;
			G.scen_json  = realloc(G.scen_json, (size_t) G.scen_cap);
			G.scen_json[G.scen_len] = 0;
		}
		G.scen_len += snprintf(G.scen_json + G.scen_len,
		    (size_t) (G.scen_cap - G.scen_len),
		    "%s{\"scenario\":\"%s\",\"executions\":%ld,\"choice_nodes\":%ld,"
		    "\"sched_steps\":%ld,\"switches\":%ld,\"budgets\":{%s},"
		    "\"total_dev\":%d,\"executions_per_deviation_level\":[%s],"
		    "\"completed_level\":%d,\"exhaustive\":%s,"
		    "\"distinct_outcomes\":%d,\"outcomes\":{%s},\"maxdepth\":%d,"
		    "\"hangs\":%ld,\"slow_retried\":%d,\"wall_s\":%.2f}",
		    G.scen_len ? "," : "", cfg.scenario, st.executions, st.nodes,
		    st.steps, st.switches, bb, cfg.total, lv, st.completed_level,
		    st.exhaustive ? "true" : "false", st.outcomes, ob,
		    st.maxdepth, st.hangs, slow_retried, st.wall_s);
	}
	fprintf(stderr,
	    "[vs] %s/%s: exec=%ld nodes=%ld steps=%ld outcomes=%d level=%d "
	    "exhaustive=%d viol=%d %.1fs\n",
	    cfg.prop, cfg.scenario, st.executions, st.nodes, st.steps,
	    st.outcomes, st.completed_level, st.exhaustive, S->nsig, st.wall_s);
	if (out)
		*out = st;
	munmap(S, sizeof(shared));
	munmap(POOL, poolsz);
	munmap(WR, sizeof(wres) * (size_t) (cfg.workers + 1));
	G.deadline = save_deadline;
	return 0;
}

// --replay <file>: run exactly that choice list once, print the log
static int
replay_file(const vx_cfg *cfg)
{
	FILE *f = fopen(G.replay, "r");
	if (!f) {
		perror(G.replay);
		exit(2);
	}
	static char buf[1 << 17];
	size_t      n = fread(buf, 1, sizeof(buf) - 1, f);
	buf[n]        = 0;
	fclose(f);
	char scen[128] = "";
	char *p        = strstr(buf, "\"scenario\":\"");
	if (p)
		sscanf(p + 12, "%127[^\"]", scen);
	if (strcmp(scen, cfg->scenario) != 0)
		return 0; // not this scenario
	item it;
	memset(&it, 0, sizeof(it));
	p = strstr(buf, "\"choices\":[");
	if (p) {
		p += 11;
		while (*p == '[' || *p == ',') {
			if (*p == ',')
				p++;
			unsigned a, b, c, d;
			if (sscanf(p, "[%u,%u,%u,%u]", &a, &b, &c, &d) != 4)
				break;
			it.d[it.ndev].idx  = a;
			it.d[it.ndev].alt  = (uint16_t) b;
			it.d[it.ndev].n    = (uint16_t) c;
			it.d[it.ndev].kind = (uint8_t) d;
			it.ndev++;
			p = strchr(p, ']') + 1;
		}
	}
	wres *w   = mmap(NULL, sizeof(wres), PROT_READ | PROT_WRITE,
	      MAP_SHARED | MAP_ANONYMOUS, -1, 0);
	int   efd = memfd_create("vserr", 0);
	int   rc  = run_one(cfg, &it, w, efd, cfg->watchdog_s * 3);
	static char err[1 << 16];
	read_err(efd, err, sizeof(err));
	printf("replay %s scenario=%s rc=%d outcome=%s\n--- log ---\n%s--- "
	       "stderr ---\n%s\n",
	    G.replay, scen, rc, w->outcome, w->log, err);
	if (rc != 0 || w->soft_clause[0]) {
		if (w->soft_clause[0])
			printf("soft violation %s: %s\n", w->soft_clause, w->soft_msg);
		printf("VIOLATION property=%s replay=%s\n", cfg->prop, G.replay);
		exit(1);
	}
	exit(0);
}

int
vx_finish(void)
{
	FILE *f = fopen(G.outpath, "w");
	if (!f) {
		perror(G.outpath);
		return 2;
	}
	fprintf(f, "{\"property\":\"%s\",\"tier\":\"%s\",", G.prop, G.tier);
	fprintf(f,
	    "\"executions\":%ld,\"choice_nodes\":%ld,\"sched_steps\":%ld,"
	    "\"switches\":%ld,\"nontrivial\":%ld,\"cases\":%ld,\"hangs\":%ld,"
	    "\"bfs_states\":%ld,\"bfs_transitions\":%ld,\"traces\":%ld,"
	    "\"fault_evaluations\":%ld,\"fault_nontrivial\":%ld,"
	    "\"scenarios\":%d,\"vacuous_scenarios\":%d,",
	    G.executions, G.nodes, G.steps, G.switches, G.nontrivial, G.cases,
	    G.hangs,
	    G.states, G.transitions, G.traces, G.fevals, G.fnontriv,
	    G.scenarios, G.vacuous);
	fprintf(f, "\"exhaustive\":%s,\"determinism_ok\":%s,",
	    G.exhaustive ? "true" : "false",
	    G.determinism_ok ? "true" : "false");
	fprintf(f, "\"machinery_errors\":%d,", G.machinery_errors);
	fprintf(f, "\"unreproduced\":[");
	for (int i = 0; i < G.nunrep; i++) {
		fprintf(f, "%s\"", i ? "," : "");
		for (const char *q = G.unrep[i]; *q; q++)
			if (*q != '"' && *q != '\\' && (unsigned char) *q >= 32)
				fputc(*q, f);
		fprintf(f, "\"");
	}
	fprintf(f, "],");
	fprintf(f, "\"scenario_stats\":[%s],", G.scen_json ? G.scen_json : "");
	fprintf(f, "\"samples\":[");
	for (int i = 0; i < G.nsamples; i++) {
		if (i)
			fputc(',', f);
		json_str(f, G.samples[i]);
	}
	fprintf(f, "],\"notes\":{");
	for (int i = 0; i < G.nnotes; i++) {
		if (i)
			fputc(',', f);
		json_str(f, G.notes[i][0]);
		fputc(':', f);
		json_str(f, G.notes[i][1]);
	}
	fprintf(f, "},\"violations\":[");
	for (int i = 0; i < G.nsig; i++) {
		if (i)
			fputc(',', f);
		fprintf(f, "{\"signature\":");
		json_str(f, G.sig[i].sig);
		fprintf(f, ",\"message\":");
		json_str(f, G.sig[i].msg);
		fprintf(f, ",\"replay\":");
		json_str(f, G.sig[i].replay);
		fprintf(f, ",\"count\":%ld,\"deviations\":%d}", G.sig[i].count,
		    G.sig[i].ndev);
	}
	fprintf(f, "],\"wall_s\":%.2f}\n", wall() - G.t0);
	fclose(f);
	// remove scratch dir
	char cmd[400];
	snprintf(cmd, sizeof(cmd), "rm -rf '%s'", G.rundir);
	if (system(cmd) != 0) {
	}
	return G.machinery_errors ? 2 : 0;
}
