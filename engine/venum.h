// venum.h - crash-tolerant parallel exhaustive enumeration of an indexed
// input space [0,n): every index is evaluated exactly once by one of W forked
// workers (striding); a crash/sanitizer abort on one input is recorded as a
// violation naming that input and the worker is restarted after it.
#ifndef VENUM_H
#define VENUM_H
#define _GNU_SOURCE
#include "vs.h"
#include <errno.h>
#include <stdint.h>
#include <stdio.h>
#include <stdlib.h>
#include <string.h>
#include <sys/mman.h>
#include <sys/wait.h>
#include <unistd.h>

typedef struct ve_res {
	int  nontrivial; // this input exercised the interesting path
	long calls;      // API calls made
} ve_res;
// returns 0 ok, -1 violation (sig/msg filled)
typedef int (*ve_test_fn)(void *ctx, uint64_t idx, ve_res *res, char *sig,
    size_t sigsz, char *msg, size_t msgsz);
// describe input idx (for crash reports and samples)
typedef void (*ve_desc_fn)(void *ctx, uint64_t idx, char *out, size_t sz);

typedef struct ve_wshared {
	volatile uint64_t cur;
	volatile int      busy;
	long              evals, nontriv, calls, nviol;
	int               nv;
	struct {
		char sig[120];
		char msg[700];
	} v[16];
} ve_wshared;

static void
ve_record(ve_wshared *S, const char *sig, const char *msg)
{
	S->nviol++;
	for (int i = 0; i < S->nv; i++)
		if (strcmp(S->v[i].sig, sig) == 0)
			return;
	if (S->nv < 16) {
		snprintf(S->v[S->nv].sig, sizeof(S->v[0].sig), "%s", sig);
		snprintf(S->v[S->nv].msg, sizeof(S->v[0].msg), "%s", msg);
		S->nv++;
	}
}

static void
ve_run(const char *name, void *ctx, uint64_t n, ve_test_fn test,
    ve_desc_fn desc, int W)
{
	if (W > 16)
		W = 16;
	if ((uint64_t) W > n)
		W = n ? (int) n : 1;
	ve_wshared *S = (ve_wshared *) mmap(NULL, sizeof(ve_wshared) * (size_t) W,
	    PROT_READ | PROT_WRITE, MAP_SHARED | MAP_ANONYMOUS, -1, 0);
	memset(S, 0, sizeof(ve_wshared) * (size_t) W);
	pid_t    pid[16];
	int      efd[16];
	uint64_t start[16];
	int      restarts = 0, timecut = 0;
	for (int w = 0; w < W; w++) {
		start[w] = (uint64_t) w;
		efd[w]   = memfd_create("veerr", 0);
		pid[w]   = -1;
	}
	int live = 0;
	for (;;) {
		fflush(NULL);
		for (int w = 0; w < W; w++) {
			if (pid[w] != -1 || start[w] >= n)
				continue;
			if (ftruncate(efd[w], 0) != 0) {
			}
			lseek(efd[w], 0, SEEK_SET);
			pid[w] = fork();
			if (pid[w] == 0) {
				dup2(efd[w], 2);
				char   sig[120], msg[700];
				ve_res r;
				for (uint64_t i = start[w]; i < n; i += (uint64_t) W) {
					if ((S[w].evals & 0xfff) == 0 && vx_time_left() < 8)
						_exit(7);
					S[w].cur  = i;
					S[w].busy = 1;
					r.nontrivial = 0;
					r.calls      = 0;
					sig[0] = msg[0] = 0;
					int rc = test(ctx, i, &r, sig, sizeof(sig), msg,
					    sizeof(msg));
					S[w].busy = 0;
					S[w].evals++;
					S[w].calls += r.calls;
					if (r.nontrivial)
						S[w].nontriv++;
					if (rc < 0)
						ve_record(&S[w], sig, msg);
				}
				S[w].cur = n;
				_exit(0);
			}
			live++;
		}
		if (live == 0)
			break;
		int   st;
		pid_t p = wait(&st);
		if (p < 0) {
			if (errno == EINTR)
				continue;
			break;
		}
		for (int w = 0; w < W; w++) {
			if (pid[w] != p)
				continue;
			pid[w] = -1;
			live--;
			if (WIFEXITED(st) && WEXITSTATUS(st) == 0) {
				start[w] = n;
			} else if (WIFEXITED(st) && WEXITSTATUS(st) == 7) {
				start[w] = n;
				timecut  = 1;
			} else {
				// crashed on input S[w].cur
				char eb[3000], d[300], msg[700], sig[160];
				lseek(efd[w], 0, SEEK_SET);
				ssize_t g = read(efd[w], eb, sizeof(eb) - 1);
				eb[g > 0 ? g : 0] = 0;
				char        kind[64] = "crash";
				const char *q = strstr(eb, "ERROR: AddressSanitizer: ");
				if (q) {
					q += 25;
					int i = 0;
					while (q[i] && q[i] != ' ' && q[i] != '\n' && i < 50) {
						kind[i] = q[i];
						i++;
					}
					kind[i] = 0;
				} else if (strstr(eb, "runtime error"))
					snprintf(kind, sizeof(kind), "ubsan");
				char fr[80] = "";
				q           = eb;
				while ((q = strstr(q, " in ")) != NULL) {
					q += 4;
					if (!strncmp(q, "nni_", 4) || !strncmp(q, "nng_", 4) ||
					    !strncmp(q, "url_", 4) || !strncmp(q, "http_", 5) ||
					    !strncmp(q, "ws_", 3)) {
						int i = 0;
						while (q[i] && q[i] != ' ' && q[i] != '\n' &&
						    i < 60) {
							fr[i] = q[i];
							i++;
						}
						fr[i] = 0;
						break;
					}
				}
				snprintf(sig, sizeof(sig), "%s:%s@%s", name, kind, fr);
				desc(ctx, S[w].cur, d, sizeof(d));
				snprintf(msg, sizeof(msg), "input %s => %.350s", d, eb);
				ve_record(&S[w], sig, msg);
				S[w].evals++;
				start[w] = S[w].cur + (uint64_t) W;
				restarts++;
				if (restarts > 200)
					start[w] = n;
			}
		}
	}
	long evals = 0, nontriv = 0, calls = 0, nviol = 0;
	for (int w = 0; w < W; w++) {
		evals += S[w].evals;
		nontriv += S[w].nontriv;
		calls += S[w].calls;
		nviol += S[w].nviol;
		for (int i = 0; i < S[w].nv; i++)
			vx_violation(S[w].v[i].sig, "%s", S[w].v[i].msg);
		close(efd[w]);
	}
	vx_add_counts(evals, calls, evals);
	vx_add_fault_counts(evals, nontriv);
	if (timecut || (uint64_t) evals < n)
		vx_set_exhaustive(0);
	char d[300];
	if (n > 0) {
		desc(ctx, n / 3, d, sizeof(d));
		vx_sample("%s[%llu]: %s", name, (unsigned long long) (n / 3), d);
	}
	fprintf(stderr,
	    "[venum] %s: inputs=%llu evaluated=%ld nontrivial=%ld calls=%ld "
	    "violations=%ld crashes=%d timecut=%d\n",
	    name, (unsigned long long) n, evals, nontriv, calls, nviol, restarts,
	    timecut);
	vx_note(name, "inputs=%llu evaluated=%ld accepted_or_nontrivial=%ld",
	    (unsigned long long) n, evals, nontriv);
	munmap(S, sizeof(ve_wshared) * (size_t) W);
}
#endif
