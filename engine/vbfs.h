// vbfs.h - E5: crash-tolerant explicit-state BFS for thread-free structures.
// A state is an op history replayed on a fresh real object by the harness'
// step function; the dedup key is a canonical hash of ALL fields of the real
// object that influence future behaviour (supplied by the harness).  Queue and
// visited set live in shared memory and the search runs in a forked child, so
// a sanitizer abort or crash inside a transition becomes a recorded violation
// (with the history that caused it) and the search continues after it.
#ifndef VBFS_H
#define VBFS_H
#define _GNU_SOURCE
#include "vs.h"
#include <errno.h>
#include <sched.h>
#include <signal.h>
#include <stdint.h>
#include <stdio.h>
#include <stdlib.h>
#include <string.h>
#include <sys/mman.h>
#include <sys/wait.h>
#include <unistd.h>

#define VB_MAXH 24
typedef struct vb_hist {
	uint8_t n;
	uint8_t op[VB_MAXH];
} vb_hist;

// step: replay h (already validated), then apply `op`.
// return 0 = ok (*key set), 1 = op not applicable / out of bound (skipped),
// -1 = violation (describe it in err, give a short class in sig)
typedef int (*vb_step_fn)(void *ctx, const vb_hist *h, int op, uint64_t *key,
    char *sig, size_t sigsz, char *err, size_t errsz);
// number of ops applicable after history h (ops are 0..n-1)
typedef int (*vb_nops_fn)(void *ctx, const vb_hist *h);
typedef void (*vb_desc_fn)(void *ctx, const vb_hist *h, char *out, size_t sz);

#define VB_MAXW 16
typedef struct vb_shared {
	volatile int lock;
	size_t  qh, qt, qcap;
	int     busy; // workers currently expanding a state
	long    states, trans, skipped, nviol;
	int     deepest;
	int     timecut, depthcut, qfull;
	uint64_t seen_mask;
	int     nsample;
	char    sample[4][300];
	int     nv;
	struct {
		char sig[120];
		char msg[900];
	} v[64];
	struct {
		size_t idx;  // state being expanded
		int    op;   // op being executed
		int    in_step, has_state;
	} w[VB_MAXW];
} vb_shared;

static inline uint64_t
vb_fnv(uint64_t h, const void *p, size_t n)
{
	const uint8_t *b = (const uint8_t *) p;
	for (size_t i = 0; i < n; i++)
		h = (h ^ b[i]) * 0x100000001b3ull;
	return h;
}
#define VB_FNV0 0xcbf29ce484222325ull

static void
vb_lock(vb_shared *S)
{
	int spins = 0;
	while (__atomic_exchange_n(&S->lock, 1, __ATOMIC_ACQUIRE))
		while (S->lock) {
			__builtin_ia32_pause();
			if (++spins > 200) {
				sched_yield();
				spins = 0;
			}
		}
}
static void
vb_unlock(vb_shared *S)
{
	__atomic_store_n(&S->lock, 0, __ATOMIC_RELEASE);
}

// lock-free insert (compare-and-swap on the slot)
static int
vb_seen_add(uint64_t *seen, uint64_t mask, uint64_t k)
{
	if (k == 0)
		k = 1;
	uint64_t h = (k * 0x9E3779B97F4A7C15ull) & mask;
	for (;;) {
		uint64_t cur = __atomic_load_n(&seen[h], __ATOMIC_ACQUIRE);
		if (cur == k)
			return 0;
		if (cur == 0) {
			uint64_t exp = 0;
			if (__atomic_compare_exchange_n(&seen[h], &exp, k, 0,
			        __ATOMIC_ACQ_REL, __ATOMIC_ACQUIRE))
				return 1;
			if (exp == k)
				return 0;
		}
		h = (h + 1) & mask;
	}
}

static void
vb_record(vb_shared *S, const char *sig, const char *msg)
{
	vb_lock(S);
	S->nviol++;
	int found = 0;
	for (int i = 0; i < S->nv; i++)
		if (strcmp(S->v[i].sig, sig) == 0)
			found = 1;
	if (!found && S->nv < 64) {
		snprintf(S->v[S->nv].sig, sizeof(S->v[0].sig), "%s", sig);
		snprintf(S->v[S->nv].msg, sizeof(S->v[0].msg), "%s", msg);
		S->nv++;
	}
	vb_unlock(S);
}

static void
vb_worker(int wi, vb_shared *S, uint64_t *seen, vb_hist *Q, void *ctx,
    vb_step_fn step, vb_nops_fn nops, vb_desc_fn desc, int maxdepth,
    int maxviol)
{
	char sig[120], err[800], d[400];
	for (;;) {
		size_t idx;
		int    op0 = 0;
		if (S->w[wi].has_state) {
			// resuming after a crash inside a transition
			idx = S->w[wi].idx;
			op0 = S->w[wi].op;
		} else {
			vb_lock(S);
			if (S->qh < S->qt && S->nviol < maxviol && !S->timecut) {
				idx = S->qh++;
				S->busy++;
				S->w[wi].idx       = idx;
				S->w[wi].op        = 0;
				S->w[wi].has_state = 1;
				vb_unlock(S);
			} else {
				int done = (S->busy == 0) || S->nviol >= maxviol ||
				    S->timecut;
				vb_unlock(S);
				if (done)
					_exit(0);
				usleep(200);
				continue;
			}
		}
		vb_hist h = Q[idx];
		if (h.n > S->deepest)
			S->deepest = h.n;
		if (h.n >= maxdepth || h.n >= VB_MAXH - 1) {
			S->depthcut = 1;
		} else if (vx_time_left() < 8) {
			S->timecut = 1;
		} else {
			int n = nops(ctx, &h);
			for (int op = op0; op < n; op++) {
				uint64_t key    = 0;
				S->w[wi].op     = op;
				S->w[wi].in_step = 1;
				sig[0] = err[0] = 0;
				int r = step(ctx, &h, op, &key, sig, sizeof(sig), err,
				    sizeof(err));
				S->w[wi].in_step = 0;
				if (r == 1) {
					__atomic_add_fetch(&S->skipped, 1, __ATOMIC_RELAXED);
					continue;
				}
				__atomic_add_fetch(&S->trans, 1, __ATOMIC_RELAXED);
				vb_hist h2    = h;
				h2.op[h2.n++] = (uint8_t) op;
				if (r < 0) {
					char msg[1300];
					desc(ctx, &h2, d, sizeof(d));
					snprintf(msg, sizeof(msg), "%s => %s", d, err);
					vb_record(S, sig, msg);
					continue;
				}
				if (vb_seen_add(seen, S->seen_mask, key)) {
					vb_lock(S);
					S->states++;
					if (S->qt < S->qcap)
						Q[S->qt++] = h2;
					else
						S->qfull = 1;
					if (S->nsample < 4 && (S->states % 7919) == 2) {
						desc(ctx, &h2, S->sample[S->nsample],
						    sizeof(S->sample[0]));
						S->nsample++;
					}
					vb_unlock(S);
				}
			}
		}
		vb_lock(S);
		S->busy--;
		S->w[wi].has_state = 0;
		vb_unlock(S);
	}
}

// Runs one BFS with up to 16 worker processes; accumulates into the global
// counters via vx_add_counts.  log2_seen: size of the visited table; qcap:
// queue capacity (histories)
static void
vb_run(const char *name, void *ctx, vb_step_fn step, vb_nops_fn nops,
    vb_desc_fn desc, int maxdepth, int log2_seen, size_t qcap, int maxviol)
{
	size_t     seen_n = (size_t) 1 << log2_seen;
	vb_shared *S = (vb_shared *) mmap(NULL, sizeof(vb_shared), PROT_READ | PROT_WRITE,
	    MAP_SHARED | MAP_ANONYMOUS, -1, 0);
	uint64_t  *seen = (uint64_t *) mmap(NULL, seen_n * 8, PROT_READ | PROT_WRITE,
	     MAP_SHARED | MAP_ANONYMOUS | MAP_NORESERVE, -1, 0);
	vb_hist   *Q = (vb_hist *) mmap(NULL, qcap * sizeof(vb_hist), PROT_READ | PROT_WRITE,
	      MAP_SHARED | MAP_ANONYMOUS | MAP_NORESERVE, -1, 0);
	if (S == MAP_FAILED || seen == MAP_FAILED || Q == MAP_FAILED) {
		perror("mmap");
		exit(2);
	}
	memset(S, 0, sizeof(*S));
	S->qcap      = qcap;
	S->seen_mask = seen_n - 1;
	Q[0].n       = 0;
	S->qt        = 1;
	S->states    = 1;
	int   W      = VB_MAXW;
	pid_t pid[VB_MAXW];
	int   efd[VB_MAXW];
	int   crashes = 0;
	for (int w = 0; w < W; w++) {
		efd[w] = memfd_create("vberr", 0);
		pid[w] = -1;
	}
	fflush(NULL);
	int live = 0;
	for (int w = 0; w < W; w++) {
		pid[w] = fork();
		if (pid[w] == 0) {
			dup2(efd[w], 2);
			dup2(efd[w], 1);
			setvbuf(stdout, NULL, _IONBF, 0);
			vb_worker(w, S, seen, Q, ctx, step, nops, desc, maxdepth,
			    maxviol);
			_exit(0);
		}
		live++;
	}
	while (live > 0) {
		int   st = 0;
		pid_t p  = wait(&st);
		if (p < 0) {
			if (errno == EINTR)
				continue;
			break;
		}
		int w;
		for (w = 0; w < W; w++)
			if (pid[w] == p)
				break;
		if (w == W)
			continue;
		pid[w] = -1;
		live--;
		if (WIFEXITED(st) && WEXITSTATUS(st) == 0)
			continue;
		// crashed inside a transition: record it, resume after it
		crashes++;
		char eb[6000];
		lseek(efd[w], 0, SEEK_SET);
		ssize_t got = read(efd[w], eb, sizeof(eb) - 1);
		eb[got > 0 ? got : 0] = 0;
		char        sig[200] = "crash", d[400], msg[1300];
		const char *q        = strstr(eb, "ERROR: AddressSanitizer: ");
		char        kind[80] = "crash";
		if (q) {
			q += 25;
			int i = 0;
			while (q[i] && q[i] != ' ' && q[i] != '\n' && i < 60) {
				kind[i] = q[i];
				i++;
			}
			kind[i] = 0;
		} else if (strstr(eb, "runtime error: ")) {
			snprintf(kind, sizeof(kind), "ubsan");
		} else if (strstr(eb, "panic")) {
			snprintf(kind, sizeof(kind), "panic");
		}
		char fr[100] = "";
		q            = eb;
		int nf       = 0;
		while (nf < 2 && (q = strstr(q, " in ")) != NULL) {
			q += 4;
			char f[64];
			int  i = 0;
			while (q[i] && q[i] != ' ' && q[i] != '\n' && i < 60) {
				f[i] = q[i];
				i++;
			}
			f[i] = 0;
			if (strncmp(f, "nni_", 4) && strncmp(f, "nng_", 4) &&
			    strncmp(f, "id_", 3))
				continue;
			if (nf)
				strncat(fr, "<", sizeof(fr) - strlen(fr) - 1);
			strncat(fr, f, sizeof(fr) - strlen(fr) - 1);
			nf++;
		}
		{
			char pre[40];
			snprintf(pre, sizeof(pre), "%s", name);
			char *dash = strchr(pre, '-');
			if (dash)
				*dash = 0;
			snprintf(sig, sizeof(sig), "%s:%s@%s", pre, kind, fr);
		}
		if (S->lock) // the worker cannot have died holding it, but be safe
			S->lock = 0;
		if (S->w[w].has_state) {
			vb_hist h2 = Q[S->w[w].idx];
			if (S->w[w].in_step && h2.n < VB_MAXH - 1)
				h2.op[h2.n++] = (uint8_t) S->w[w].op;
			desc(ctx, &h2, d, sizeof(d));
			S->w[w].op++; // resume with the next op of the same state
			S->w[w].in_step = 0;
		} else
			snprintf(d, sizeof(d), "(between states)");
		snprintf(msg, sizeof(msg), "%s => %.700s", d, eb);
		vb_record(S, sig, msg);
		__atomic_add_fetch(&S->trans, 1, __ATOMIC_RELAXED);
		if (crashes < 400) {
			if (ftruncate(efd[w], 0) != 0) {
			}
			lseek(efd[w], 0, SEEK_SET);
			fflush(NULL);
			pid[w] = fork();
			if (pid[w] == 0) {
				dup2(efd[w], 2);
				dup2(efd[w], 1);
				setvbuf(stdout, NULL, _IONBF, 0);
				vb_worker(w, S, seen, Q, ctx, step, nops, desc, maxdepth,
				    maxviol);
				_exit(0);
			}
			live++;
		}
	}
	for (int w = 0; w < W; w++)
		close(efd[w]);
	for (int i = 0; i < S->nv; i++)
		vx_violation(S->v[i].sig, "%s", S->v[i].msg);
	for (int i = 0; i < S->nsample; i++)
		vx_sample("%s: %s", name, S->sample[i]);
	vx_add_counts(S->states, S->trans, S->trans);
	int closed = !S->timecut && !S->depthcut && !S->qfull && S->qh >= S->qt;
	if (S->timecut || S->qfull || S->nviol >= maxviol)
		vx_set_exhaustive(0);
	fprintf(stderr,
	    "[vbfs] %s: states=%ld transitions=%ld skipped=%ld deepest=%d "
	    "closed=%d timecut=%d violations=%ld crashes=%d\n",
	    name, S->states, S->trans, S->skipped, S->deepest, closed, S->timecut,
	    S->nviol, crashes);
	char note[300];
	snprintf(note, sizeof(note),
	    "states=%ld transitions=%ld deepest=%d depth_bound=%d closed_under_"
	    "alphabet=%s time_cut=%s",
	    S->states, S->trans, S->deepest, maxdepth, closed ? "yes" : "no",
	    S->timecut ? "yes" : "no");
	vx_note(name, "%s", note);
	munmap(S, sizeof(vb_shared));
	munmap(seen, seen_n * 8);
	munmap(Q, qcap * sizeof(vb_hist));
}
#endif
