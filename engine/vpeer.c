// vpeer.c - E3: the harness as the other end of the wire
#define _GNU_SOURCE
#include "vpeer.h"
#include "valloc.h"
#include "vs.h"
#include <errno.h>
#include <fcntl.h>
#include <poll.h>
#include <stdio.h>
#include <stdlib.h>
#include <string.h>
#include <sys/socket.h>
#include <unistd.h>

static int vh_valloc;

void
vh_die(const char *what, int rv, int line)
{
	vs_fail("harness:setup", "%s failed: %s (line %d)", what, nng_strerror(rv),
	    line);
}

void
vh_init(int use_valloc)
{
	nng_init_params p;
	memset(&p, 0, sizeof(p));
	p.num_task_threads     = 2;
	p.max_task_threads     = 2;
	p.num_expire_threads   = 1;
	p.max_expire_threads   = 1;
	p.num_poller_threads   = 1;
	p.max_poller_threads   = 1;
	p.num_resolver_threads = 1;
	vh_valloc              = use_valloc;
	if (use_valloc)
		va_install(&p);
	int rv = nng_init(&p);
	if (rv != 0)
		vh_die("nng_init", rv, __LINE__);
	vs_settle();
}

void
vh_fini(void)
{
	vs_settle();
	nng_fini();
	if (vh_valloc)
		va_check_balance("after nng_fini");
}

static void
setnb(int fd)
{
	fcntl(fd, F_SETFL, fcntl(fd, F_GETFL) | O_NONBLOCK);
	fcntl(fd, F_SETFD, FD_CLOEXEC);
}

int
vp_attach_more(nng_listener l)
{
	int sv[2];
	if (socketpair(AF_UNIX, SOCK_STREAM, 0, sv) != 0)
		vs_fail("harness:setup", "socketpair: %s", strerror(errno));
	setnb(sv[0]);
	setnb(sv[1]);
	int rv = nng_listener_set_int(l, NNG_OPT_SOCKET_FD, sv[0]);
	if (rv != 0) {
		close(sv[0]);
		close(sv[1]);
		return -1;
	}
	return sv[1];
}

int
vp_attach(nng_socket s, nng_listener *lp)
{
	nng_listener l;
	int          rv;
	if ((rv = nng_listener_create(&l, s, "socket://")) != 0)
		vh_die("listener_create socket://", rv, __LINE__);
	if ((rv = nng_listener_start(l, 0)) != 0)
		vh_die("listener_start socket://", rv, __LINE__);
	if (lp)
		*lp = l;
	return vp_attach_more(l);
}

int
vp_write_all(int fd, const void *b, size_t n)
{
	const uint8_t *p = b;
	int            spins = 0;
	while (n > 0) {
		ssize_t w = send(fd, p, n, MSG_NOSIGNAL);
		if (w > 0) {
			p += w;
			n -= (size_t) w;
			spins = 0;
			continue;
		}
		if (w < 0 && (errno == EAGAIN || errno == EWOULDBLOCK)) {
			if (++spins > 1000)
				return -1;
			vs_settle();
			continue;
		}
		return -1;
	}
	return 0;
}

ssize_t
vp_read_avail(int fd, void *buf, size_t cap)
{
	ssize_t n = recv(fd, buf, cap, 0);
	if (n > 0)
		return n;
	if (n == 0)
		return -1;
	if (errno == EAGAIN || errno == EWOULDBLOCK)
		return 0;
	return -1;
}

int
vp_handshake(int fd, uint16_t myproto)
{
	uint8_t h[8] = { 0, 'S', 'P', 0, (uint8_t) (myproto >> 8),
		(uint8_t) myproto, 0, 0 };
	if (vp_write_all(fd, h, 8) != 0)
		return -1;
	vs_settle();
	uint8_t r[8];
	size_t  got = 0;
	for (int tries = 0; got < 8 && tries < 50; tries++) {
		ssize_t n = vp_read_avail(fd, r + got, 8 - got);
		if (n < 0)
			return -1;
		if (n == 0)
			vs_settle();
		got += (size_t) n;
	}
	if (got < 8 || r[0] != 0 || r[1] != 'S' || r[2] != 'P' || r[3] != 0)
		return -1;
	vs_settle();
	return (r[4] << 8) | r[5];
}

int
vp_connect_raw(nng_socket s, uint16_t myproto, nng_listener *lp)
{
	int fd = vp_attach(s, lp);
	if (fd < 0)
		return -1;
	vs_settle();
	if (vp_handshake(fd, myproto) < 0) {
		close(fd);
		return -1;
	}
	return fd;
}

size_t
vp_frame(uint8_t *out, const void *hdr, size_t hl, const void *body, size_t bl,
    int ipc)
{
	size_t   o   = 0;
	uint64_t len = hl + bl;
	if (ipc)
		out[o++] = 1;
	for (int i = 7; i >= 0; i--)
		out[o++] = (uint8_t) (len >> (8 * i));
	if (hl)
		memcpy(out + o, hdr, hl);
	o += hl;
	if (bl)
		memcpy(out + o, body, bl);
	o += bl;
	return o;
}

int
vp_send(int fd, const void *hdr, size_t hl, const void *body, size_t bl)
{
	uint8_t *b = malloc(hl + bl + 16);
	size_t   n = vp_frame(b, hdr, hl, body, bl, 0);
	int      r = vp_write_all(fd, b, n);
	free(b);
	return r;
}

int
vp_write_cut(int fd, const uint8_t *b, size_t n, const size_t *cuts, int nc)
{
	size_t pos = 0;
	for (int i = 0; i <= nc; i++) {
		size_t end = (i < nc) ? cuts[i] : n;
		if (end > n)
			end = n;
		if (end > pos) {
			if (vp_write_all(fd, b + pos, end - pos) != 0)
				return -1;
			pos = end;
			vs_settle();
		}
	}
	return 0;
}

int
vp_next_frame(int fd, vp_rd *r, const uint8_t **payload, size_t *len)
{
	static __thread size_t consumed_fd_len; // bytes of previous frame to drop
	(void) consumed_fd_len;
	// drop previously returned frame
	if (r->buf[sizeof(r->buf) - 1] == 0xA5 && 0) {
	}
	for (;;) {
		size_t hdr = r->ipc ? 9 : 8;
		if (r->len >= hdr) {
			uint64_t L = 0;
			for (size_t i = hdr - 8; i < hdr; i++)
				L = (L << 8) | r->buf[i];
			if (L > sizeof(r->buf) - hdr)
				return -2; // absurd frame
			if (r->len >= hdr + L) {
				// hand out a copy at the tail end of the buffer? keep
				// simple: rotate frame to a static side buffer
				static __thread uint8_t side[1 << 17];
				memcpy(side, r->buf + hdr, L);
				memmove(r->buf, r->buf + hdr + L, r->len - hdr - L);
				r->len -= hdr + L;
				*payload = side;
				*len     = L;
				return 1;
			}
		}
		if (r->eof)
			return -1;
		ssize_t n =
		    vp_read_avail(fd, r->buf + r->len, sizeof(r->buf) - r->len);
		if (n < 0) {
			r->eof = 1;
			continue;
		}
		if (n == 0)
			return 0;
		r->len += (size_t) n;
	}
}

int
vp_is_eof(int fd)
{
	uint8_t c;
	ssize_t n = recv(fd, &c, 1, MSG_PEEK);
	if (n == 0)
		return 1;
	if (n < 0 && errno != EAGAIN && errno != EWOULDBLOCK)
		return 1;
	return 0;
}

int
vh_send_nb(nng_socket s, const void *body, size_t n)
{
	nng_msg *m;
	int      rv;
	if ((rv = nng_msg_alloc(&m, 0)) != 0)
		return rv;
	if (n && (rv = nng_msg_append(m, body, n)) != 0) {
		nng_msg_free(m);
		return rv;
	}
	if ((rv = nng_sendmsg(s, m, NNG_FLAG_NONBLOCK)) != 0)
		nng_msg_free(m);
	return rv;
}

int
vh_recv_nb(nng_socket s, uint8_t *buf, size_t cap, size_t *n)
{
	nng_msg *m;
	int      rv = nng_recvmsg(s, &m, NNG_FLAG_NONBLOCK);
	if (rv != 0)
		return rv;
	size_t l = nng_msg_len(m);
	if (l > cap)
		l = cap;
	memcpy(buf, nng_msg_body(m), l);
	*n = nng_msg_len(m);
	nng_msg_free(m);
	return 0;
}

const char *
vh_hex(const void *p, size_t n)
{
	static __thread char ring[4][200];
	static __thread int  k;
	char                *o = ring[k++ & 3];
	size_t               j = 0;
	const uint8_t       *b = p;
	for (size_t i = 0; i < n && j + 3 < 190; i++)
		j += (size_t) sprintf(o + j, "%02x", b[i]);
	if (n * 2 > 186)
		strcpy(o + j, "..");
	else
		o[j] = 0;
	return o;
}
