// valloc.c - E4: accounting allocator plugged in through nng_init_params.
// Tracks every live block with its size, checks sized frees, double/foreign
// frees, balance at fini, and can fail chosen allocations (ALLOC choice).
#define _GNU_SOURCE
#include "valloc.h"
#include "vs.h"
#include <stdlib.h>
#include <string.h>
#include <stdio.h>
#include <stdint.h>

#define VA_SLOTS (1 << 17)
#define VA_FR 6
static struct {
	void  *p;
	size_t sz;
	long   idx;
	void  *pc[VA_FR];
} tab[VA_SLOTS];
char va_failed_site[200];
extern void __sanitizer_symbolize_pc(void *, const char *, char *, size_t);

static void
va_walk(void **pcs)
{
	void **fp = __builtin_frame_address(0);
	int    n  = 0;
	memset(pcs, 0, sizeof(void *) * VA_FR);
	// skip our own frames (va_walk, va_insert/va_should_fail, va_malloc)
	int skip = 2;
	while (fp && n < VA_FR) {
		void **next = (void **) fp[0];
		void  *pc   = fp[1];
		if (pc == NULL)
			break;
		if (skip > 0)
			skip--;
		else
			pcs[n++] = pc;
		if (next <= fp || (char *) next - (char *) fp > (1 << 20))
			break;
		fp = next;
	}
}

void
va_site(void **pcs, char *out, size_t sz)
{
	out[0]  = 0;
	int got = 0;
	for (int i = 0; i < VA_FR && pcs[i] && got < 3; i++) {
		char f[128] = "";
		__sanitizer_symbolize_pc((char *) pcs[i] - 1, "%f", f, sizeof(f));
		if (!f[0] || !strcmp(f, "nni_alloc") || !strcmp(f, "nni_zalloc") ||
		    !strcmp(f, "nng_alloc") || !strncmp(f, "va_", 3) ||
		    !strncmp(f, "__wrap_nni_", 11) || !strcmp(f, "nni_free") ||
		    !strcmp(f, "<null>"))
			continue;
		if (got)
			strncat(out, "<", sz - strlen(out) - 1);
		strncat(out, f, sz - strlen(out) - 1);
		got++;
	}
}
static long va_n, va_livecnt, va_livebytes;
long        va_fail_at; // fail the k-th allocation (1-based), 0 = never
int         va_choice;  // every allocation is an ALLOC choice point (in window)
long        va_failed;  // allocations that were made to fail
int         va_strict_size = 1;
long        va_last_failed_idx;

static size_t
slot(void *p)
{
	return (((uintptr_t) p >> 4) * 2654435761u) % VA_SLOTS;
}

static void
va_insert(void *p, size_t sz)
{
	size_t h = slot(p);
	while (tab[h].p != NULL && tab[h].p != (void *) 1)
		h = (h + 1) % VA_SLOTS;
	tab[h].p   = p;
	tab[h].sz  = sz;
	tab[h].idx = va_n;
	va_walk(tab[h].pc);
	va_livecnt++;
	va_livebytes += (long) sz;
}

static int
va_should_fail(void)
{
	va_n++;
	if (va_fail_at && va_n == va_fail_at) {
		void *pcs[VA_FR];
		va_walk(pcs);
		va_site(pcs, va_failed_site, sizeof(va_failed_site));
		vs_log("ALLOC-FAIL site=%s", va_failed_site);
		va_failed++;
		va_last_failed_idx = va_n;
		vs_nontrivial();
		return 1;
	}
	if (va_choice && vs_choose(VK_ALLOC, 2) == 1) {
		void *pcs[VA_FR];
		va_walk(pcs);
		va_site(pcs, va_failed_site, sizeof(va_failed_site));
		vs_log("ALLOC-FAIL site=%s", va_failed_site);
		va_failed++;
		va_last_failed_idx = va_n;
		vs_nontrivial();
		return 1;
	}
	return 0;
}

static void *
va_malloc(size_t sz)
{
	if (va_should_fail())
		return NULL;
	void *p = malloc(sz);
	if (p)
		va_insert(p, sz);
	return p;
}

static void *
va_calloc(size_t n, size_t sz)
{
	if (va_should_fail())
		return NULL;
	void *p = calloc(n, sz);
	if (p)
		va_insert(p, n * sz);
	return p;
}

static void
va_free(void *p, size_t sz)
{
	if (p == NULL)
		return;
	size_t h = slot(p);
	for (int probes = 0; probes < VA_SLOTS; probes++) {
		if (tab[h].p == p) {
			if (va_strict_size && tab[h].sz != sz) {
				char site[200], cl[260];
				va_site(tab[h].pc, site, sizeof(site));
				snprintf(cl, sizeof(cl),
				    "alloc:sized-free-mismatch@%s", site);
				vs_fail(cl,
				    "block #%ld allocated with %zu bytes (at %s) "
				    "freed with size %zu",
				    tab[h].idx, tab[h].sz, site, sz);
			}
			va_livecnt--;
			va_livebytes -= (long) tab[h].sz;
			tab[h].p = (void *) 1; // tombstone
			free(p);
			return;
		}
		if (tab[h].p == NULL)
			break;
		h = (h + 1) % VA_SLOTS;
	}
	// not ours: let ASan classify it (double free / bad free)
	free(p);
	vs_fail("alloc:foreign-or-double-free", "free(%p,%zu) of unknown block", p,
	    sz);
}

void
va_install(nng_init_params *p)
{
	p->malloc_fn = va_malloc;
	p->calloc_fn = va_calloc;
	p->free_fn   = va_free;
}

long
va_count(void)
{
	return va_n;
}
long
va_live(void)
{
	return va_livecnt;
}
long
va_live_bytes(void)
{
	return va_livebytes;
}

void
va_check_balance(const char *where)
{
	if (va_livecnt != 0) {
		// name the oldest leaked block
		long   best = -1;
		size_t bsz  = 0, bi = 0;
		for (size_t i = 0; i < VA_SLOTS; i++)
			if (tab[i].p != NULL && tab[i].p != (void *) 1 &&
			    (best < 0 || tab[i].idx < best)) {
				best = tab[i].idx;
				bsz  = tab[i].sz;
				bi   = i;
			}
		char site[200], cl[260];
		va_site(tab[bi].pc, site, sizeof(site));
		snprintf(cl, sizeof(cl), "alloc:leak@%s", site);
		vs_fail(cl,
		    "%s: %ld blocks (%ld bytes) still live; oldest is allocation "
		    "#%ld of %zu bytes from %s",
		    where, va_livecnt, va_livebytes, best, bsz, site);
	}
}
