// vs.h - cooperative scheduler (E1) + choice-tree explorer (E2) for NNG.
// Everything below runs against the unmodified library; the interposers are
// bound at link time with -Wl,--wrap=... (see vcheck.py WRAPS).
#ifndef VS_H
#define VS_H
#include <stddef.h>
#include <stdint.h>
#include <stdio.h>

// ---- choice kinds ---------------------------------------------------------
enum {
	VK_SCHED = 0, // scheduler: which enabled thread runs next
	VK_WAKE1,     // cond_signal with >= 2 waiters: which one wakes
	VK_IO,        // wrapped I/O call: full / clamp / EAGAIN
	VK_ALLOC,     // allocator: fail this allocation
	VK_ENV,       // harness: next operation / peer answer (never a "deviation")
	VK_NKIND
};
// budget classes (cost of taking an alternative != 0)
enum {
	VB_PREEMPT = 0, // SCHED alt while the running thread is still enabled
	VB_SWITCH,      // SCHED alt at a blocking point (running thread not enabled)
	VB_TIMER,       // SCHED alt = let the earliest not-yet-due timer fire now
	VB_WAKE1,
	VB_IO,
	VB_ALLOC,
	VB_ENV, // unlimited
	VB_NB
};

// ---- API for code running inside one execution (the forked child) ----------
void    vs_settle(void);          // park until no other thread is enabled now
void    vs_sleep(int ms);         // virtual sleep
int64_t vs_now(void);             // virtual ms
void    vs_window(int on);        // record choice points only while on
int     vs_choose(int kind, int n); // harness choice, 0 = default
void    vs_log(const char *fmt, ...) __attribute__((format(printf, 1, 2)));
void    vs_outcome(const char *fmt, ...) __attribute__((format(printf, 1, 2)));
// record a violation of <clause>; the execution is ended immediately
void    vs_fail(const char *clause, const char *fmt, ...)
    __attribute__((format(printf, 2, 3), noreturn));
// the injected fault / cut / deviation was really consumed by the library
void    vs_soft_fail(const char *clause, const char *fmt, ...)
    __attribute__((format(printf, 2, 3)));
void    vs_nontrivial(void);
void    vs_case(void); // one enumerated case inside a batched execution
extern int vs_atomic_points; // nni_atomic RMW are scheduling points
extern int vs_alloc_points;  // nni_alloc/nni_zalloc/nni_free are scheduling points
extern int vs_unlock_points; // 1: an unlock that enables a blocked thread is a scheduling point; 2 (default): every unlock is
extern int vs_io_points;     // wrapped I/O calls are IO choice points
extern int vs_io_maxclamp;   // clamp alternatives 1..maxclamp (and total-1)
extern int vs_io_eagain;     // add an EAGAIN alternative
extern int vs_tcp_grace_us;  // real-time grace before declaring quiescence
extern uint32_t vs_random_seed; // nni_random() = deterministic stream
extern int      vs_gai_fail_left, vs_gai_calls; // getaddrinfo of "*.invalid": fail this many times, then 127.0.0.1
extern int vs_in_child;
extern long vs_io_calls; // wrapped I/O calls seen in this execution

// ---- explorer (parent side) -----------------------------------------------
typedef struct vx_cfg {
	const char *prop;     // "C02"
	const char *scenario; // "S1-sleep-cancel"
	void (*run)(void *arg);
	void *arg;
	int   budget[VB_NB]; // -1 unlimited
	int   total;         // max number of non-ENV deviations, -1 unlimited
	int   workers;
	double deadline_s;    // wall clock for this exploration
	int   watchdog_s;     // per execution real-time limit
	long  max_exec;       // 0 = none
} vx_cfg;

typedef struct vx_stats {
	long   executions, nodes, steps, switches, nontrivial;
	long   violations, known, hangs;
	int    outcomes; // distinct outcome strings
	int    completed_level; // highest fully explored deviation count
	int    exhaustive;
	int    maxdepth; // deepest choice list
	double wall_s;
	int    determinism_ok;
	long   io_calls;
} vx_stats;

void vx_init(int argc, char **argv, const char *prop); // parses common args
int  vx_explore(const vx_cfg *cfg, vx_stats *out); // 0 ok
int  vx_finish(void); // writes result json, returns process exit code
const char *vx_tier(void); // "quick" | "thorough"
int  vx_is_thorough(void);
double vx_time_left(void);
void vx_sample(const char *fmt, ...) __attribute__((format(printf, 1, 2)));
void vx_note(const char *key, const char *fmt, ...)
    __attribute__((format(printf, 2, 3)));
// register a violation found outside an exploration (E5 style harnesses)
void vx_violation(const char *sig, const char *fmt, ...)
    __attribute__((format(printf, 2, 3)));
void vx_add_counts(long states, long transitions, long traces);
void vx_set_exhaustive(int yes);
void vx_add_fault_counts(long evaluations, long nontrivial);
const char *vx_rundir(void); // scratch dir for this run (removed at finish)

#endif
