// vpeer.h - E3 raw wire peers + common harness helpers
#ifndef VPEER_H
#define VPEER_H
#include <nng/nng.h>
#include <stddef.h>
#include <stdint.h>
#include <sys/types.h>

// SP protocol numbers
#define SP_PAIR0 0x10
#define SP_PAIR1 0x11
#define SP_PUB 0x20
#define SP_SUB 0x21
#define SP_REQ 0x30
#define SP_REP 0x31
#define SP_PUSH 0x50
#define SP_PULL 0x51
#define SP_SURVEYOR 0x62
#define SP_RESPONDENT 0x63
#define SP_BUS 0x70

// library life cycle with the minimal thread set (2 task, 1 expire, 1 poller,
// 1 resolver); use_valloc installs the accounting allocator
void vh_init(int use_valloc);
void vh_fini(void); // nng_fini + (if valloc) balance check
#define VH_OK(expr)                                                        \
	do {                                                               \
		int rv_ = (expr);                                          \
		if (rv_ != 0)                                              \
			vh_die(#expr, rv_, __LINE__);                      \
	} while (0)
void vh_die(const char *what, int rv, int line) __attribute__((noreturn));

// a listener on `s` ("socket://") handed one end of an AF_UNIX socketpair;
// returns the raw (harness) end, non-blocking.
int vp_attach(nng_socket s, nng_listener *lp);
// add another raw connection to an existing socket:// listener
int vp_attach_more(nng_listener l);
// SP handshake as peer protocol `myproto`; returns peer's protocol or -1
int vp_handshake(int fd, uint16_t myproto);
// attach + handshake + settle; -1 on failure
int vp_connect_raw(nng_socket s, uint16_t myproto, nng_listener *lp);

// framing for tcp/socket (8-byte BE length); ipc adds a leading 0x01 byte
size_t vp_frame(uint8_t *out, const void *hdr, size_t hl, const void *body,
    size_t bl, int ipc);
int    vp_send(int fd, const void *hdr, size_t hl, const void *body, size_t bl);
// write all bytes (blocking semantics on a non-blocking fd, settle if full)
int vp_write_all(int fd, const void *b, size_t n);
// write with settle() between the chunks delimited by `cuts` (offsets)
int vp_write_cut(int fd, const uint8_t *b, size_t n, const size_t *cuts, int nc);
// read whatever is available now (non-blocking); 0 = nothing, -1 = EOF/error
ssize_t vp_read_avail(int fd, void *buf, size_t cap);
// incremental frame reader
typedef struct vp_rd {
	uint8_t buf[1 << 17];
	size_t  len;
	int     eof;
	int     ipc;
} vp_rd;
// pulls available bytes; returns 1 and a complete frame (payload pointer
// valid until next call) if one is buffered, 0 if not, -1 on eof with no
// complete frame
int vp_next_frame(int fd, vp_rd *r, const uint8_t **payload, size_t *len);
int vp_is_eof(int fd); // peer closed (non-destructive if data pending -> 0)

// helpers to build big-endian words
static inline void
vp_put32(uint8_t *p, uint32_t v)
{
	p[0] = (uint8_t) (v >> 24);
	p[1] = (uint8_t) (v >> 16);
	p[2] = (uint8_t) (v >> 8);
	p[3] = (uint8_t) v;
}
static inline uint32_t
vp_get32(const uint8_t *p)
{
	return ((uint32_t) p[0] << 24) | ((uint32_t) p[1] << 16) |
	    ((uint32_t) p[2] << 8) | p[3];
}
// non-blocking message send/recv helpers returning nng error codes
int vh_send_nb(nng_socket s, const void *body, size_t n);
int vh_recv_nb(nng_socket s, uint8_t *buf, size_t cap, size_t *n);
const char *vh_hex(const void *p, size_t n); // static ring buffer
#endif
