#ifndef VALLOC_H
#define VALLOC_H
#include <nng/nng.h>
extern long va_fail_at;
extern int  va_choice;
extern long va_failed;
extern int  va_strict_size;
extern long va_last_failed_idx;
extern char va_failed_site[200];
void        va_install(nng_init_params *p);
long        va_count(void);
long        va_live(void);
long        va_live_bytes(void);
void        va_check_balance(const char *where);
#endif
