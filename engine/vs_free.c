// vs_free.c - free-running stand-in for vs.c: the same harness bodies, no scheduler, no wrapped
// libc, real threads and real time, built with -fsanitize=thread.
//
// Purpose (DESIGN 2.1 "assumption validator"): the cooperative scheduler places scheduling points
// at synchronisation operations only, which is sufficient provided there are no unsynchronised
// accesses between them - and its hand-offs are happens-before edges that would blind a race
// detector.  This pass therefore runs every scenario body of a harness free, a bounded number of
// times (one per combination of its first harness-level ENV choices, capped), under ThreadSanitizer,
// and collects the distinct data-race reports.  It is NOT the deciding step of any check (it is a
// sample): harness oracles that depend on virtual time are ignored here, only TSan reports count.
#define _GNU_SOURCE
#include "vs.h"
#include <errno.h>
#include <fcntl.h>
#include <signal.h>
#include <stdarg.h>
#include <stdlib.h>
#include <string.h>
#include <sys/mman.h>
#include <sys/stat.h>
#include <sys/wait.h>
#include <time.h>
#include <unistd.h>

int      vs_atomic_points, vs_alloc_points, vs_unlock_points, vs_io_points, vs_io_maxclamp, vs_io_eagain;
int      vs_tcp_grace_us;
uint32_t vs_random_seed;
int      vs_gai_fail_left, vs_gai_calls;
int      vs_in_child;
long     vs_io_calls;

#define MAXCH 64
typedef struct shared {
	int  nch;        // ENV choices made by the child
	int  arity[MAXCH];
	int  failed;
	char clause[128];
} shared;
static shared *SH;
static int     chpos;
static int     runidx;

static int64_t
real_ms(void)
{
	struct timespec ts;
	clock_gettime(CLOCK_MONOTONIC, &ts);
	return (int64_t) ts.tv_sec * 1000 + ts.tv_nsec / 1000000;
}
static int64_t t_base;

void
vs_settle(void)
{
	usleep(8000); // (TSan slows the library 5-15x)
}
void
vs_sleep(int ms)
{
	usleep((useconds_t) (ms + 1) * 1000);
}
int64_t
vs_now(void)
{
	return 1000000 + real_ms() - t_base;
}
void
vs_window(int on)
{
	(void) on;
}
int
vs_choose(int kind, int n)
{
	if (kind != VK_ENV || n < 2)
		return 0;
	int i = chpos++;
	if (i >= MAXCH)
		return 0;
	if (SH) {
		SH->arity[i] = n;
		SH->nch      = i + 1;
	}
	// run 0: all defaults; run r: a fixed pseudo-random spread over the menu (a sample)
	if (runidx == 0)
		return 0;
	uint32_t h = (uint32_t) runidx * 2654435761u + (uint32_t) i * 40503u;
	h ^= h >> 13;
	h *= 2246822519u;
	h ^= h >> 16;
	return (int) (h % (uint32_t) n);
}
void
vs_log(const char *fmt, ...)
{
	(void) fmt;
}
void
vs_outcome(const char *fmt, ...)
{
	(void) fmt;
}
void
vs_fail(const char *clause, const char *fmt, ...)
{
	(void) fmt;
	if (SH) {
		SH->failed = 1;
		snprintf(SH->clause, sizeof(SH->clause), "%s", clause);
	}
	_exit(0); // oracle verdicts are not used in this pass
}
void
vs_soft_fail(const char *clause, const char *fmt, ...)
{
	(void) clause;
	(void) fmt;
}
void
vs_nontrivial(void)
{
}
void
vs_case(void)
{
}

// ---- parent side -----------------------------------------------------------------
static struct {
	const char *prop, *tier, *only, *outpath;
	double      t0, deadline;
	char        rundir[128];
	long        runs, oracle_fails, crashes, harness_only;
	int         nsig;
	char        sig[256][400];
	char        first[256][160]; // scenario where first seen
	int         count[256];
} G;

static double
wall(void)
{
	struct timespec ts;
	clock_gettime(CLOCK_MONOTONIC, &ts);
	return ts.tv_sec + ts.tv_nsec / 1e9;
}

void
vx_init(int argc, char **argv, const char *prop)
{
	memset(&G, 0, sizeof(G));
	G.prop    = prop;
	G.tier    = "quick";
	G.outpath = "build/tsan_result.json";
	G.t0      = wall();
	double dl = 600;
	for (int i = 1; i < argc; i++) {
		if (!strcmp(argv[i], "--tier") && i + 1 < argc)
			G.tier = argv[++i];
		else if (!strcmp(argv[i], "--out") && i + 1 < argc)
			G.outpath = argv[++i];
		else if (!strcmp(argv[i], "--only") && i + 1 < argc)
			G.only = argv[++i];
		else if (!strcmp(argv[i], "--deadline") && i + 1 < argc)
			dl = atof(argv[++i]);
	}
	G.deadline = G.t0 + dl;
	snprintf(G.rundir, sizeof(G.rundir), "/verif/build/run/%d", (int) getpid());
	mkdir("/verif/build", 0755);
	mkdir("/verif/build/run", 0755);
	mkdir(G.rundir, 0755);
	SH = mmap(NULL, sizeof(*SH), PROT_READ | PROT_WRITE, MAP_SHARED | MAP_ANONYMOUS, -1, 0);
	signal(SIGPIPE, SIG_IGN);
	setvbuf(stdout, NULL, _IOLBF, 0);
}

// reduce one TSan report to "kind@top-of-stack-1 | top-of-stack-2" (function names only)
static void
digest_reports(const char *txt, const char *scenario)
{
	const char *p = txt;
	while ((p = strstr(p, "WARNING: ThreadSanitizer: ")) != NULL) {
		const char *end = strstr(p + 10, "==================");
		if (!end)
			end = p + strlen(p);
		char kind[64] = "";
		sscanf(p, "WARNING: ThreadSanitizer: %63[^(\n]", kind);
		for (char *q = kind + strlen(kind) - 1; q >= kind && *q == ' '; q--)
			*q = 0;
		// a report counts when both racing accesses are made deep inside the library: the
		// first three frames of both stacks are library code.  Races on harness variables, and
		// harness threads peeking at an aio or message through a shallow accessor
		// (nng_aio_result, nng_msg_len, ...) before the operation is known to be complete, are
		// artefacts of running the harness without its scheduler (vs_settle is only a delay
		// here), not findings about the library.
		int lib = 1;
		{
			const char *f = p;
			int         stacks = 0;
			for (int k = 0; k < 2 && f && f < end; k++) {
				f = strstr(f, "    #0 ");
				if (!f || f >= end)
					break;
				stacks++;
				const char *ln = f;
				for (int fr = 0; fr < 3 && ln && ln < end; fr++) {
					if (strncmp(ln, "    #", 5) != 0)
						break;
					const char *nl = strchr(ln, '\n');
					const char *rp = strstr(ln, VERIF_REPO "/");
					if (!rp || (nl && rp > nl))
						lib = 0;
					ln = nl ? nl + 1 : NULL;
				}
				f = strstr(f, "\n\n");
			}
			if (stacks < 2)
				lib = 0;
			// "As if synchronized via sleep": the two accesses are ordered only by the
			// harness's vs_settle()/vs_sleep() delay, i.e. the harness reused an aio or
			// object on the assumption that the library had gone quiet - which is what
			// the scheduler guarantees and a real-time delay does not.
			const char *sl = strstr(p, "As if synchronized via sleep");
			if (sl && sl < end)
				lib = 0;
		}
		if (!lib) {
			G.harness_only++;
			p = end;
			continue;
		}
		char        sig[400];
		int         o     = snprintf(sig, sizeof(sig), "tsan:%s", kind);
		const char *q     = p;
		int         stack = 0;
		// first two frames of the first two stacks
		while (q < end && stack < 2) {
			const char *f0 = strstr(q, "    #0 ");
			if (!f0 || f0 >= end)
				break;
			o += snprintf(sig + o, sizeof(sig) - (size_t) o, "%s", stack ? " | " : "@");
			const char *ln = f0;
			for (int fr = 0; fr < 3 && ln && ln < end; fr++) {
				char fn[96] = "?";
				// "    #N 0xaddr in func file:line" or "    #N func file:line"
				const char *in = strstr(ln, " in ");
				const char *nl = strchr(ln, '\n');
				if (in && (!nl || in < nl))
					sscanf(in + 4, "%95s", fn);
				else
					sscanf(ln + 7, "%95s", fn);
				o += snprintf(sig + o, sizeof(sig) - (size_t) o, "%s%s", fr ? "<" : "", fn);
				ln = nl ? nl + 1 : NULL;
				if (ln && strncmp(ln, "    #", 5) != 0)
					break;
			}
			stack++;
			q = strstr(f0, "\n\n");
			if (!q)
				break;
		}
		int i;
		for (i = 0; i < G.nsig; i++)
			if (!strcmp(G.sig[i], sig))
				break;
		if (i == G.nsig && G.nsig < 256) {
			snprintf(G.sig[i], sizeof(G.sig[i]), "%s", sig);
			snprintf(G.first[i], sizeof(G.first[i]), "%s", scenario);
			G.nsig++;
		}
		if (i < 256)
			G.count[i]++;
		p = end;
	}
}

int
vx_explore(const vx_cfg *cfg, vx_stats *out)
{
	if (out)
		memset(out, 0, sizeof(*out));
	if (G.only && !strstr(cfg->scenario, G.only))
		return 0;
	// a bounded number of runs per scenario: run 0 with all default ENV choices, the others
	// with a fixed pseudo-random spread over the harness's ENV menus
	int maxrun = !strcmp(G.tier, "thorough") ? 24 : 6;
	int runs   = 0;
	for (int r = 0; r < maxrun; r++) {
		if (wall() > G.deadline)
			break;
		char errf[200];
		snprintf(errf, sizeof(errf), "%s/tsan.err", G.rundir);
		memset(SH, 0, sizeof(*SH));
		pid_t pid = fork();
		if (pid == 0) {
			int fd = open(errf, O_WRONLY | O_CREAT | O_TRUNC, 0644);
			dup2(fd, 2);
			dup2(fd, 1);
			vs_in_child = 1;
			runidx      = r;
			chpos       = 0;
			t_base      = real_ms();
			alarm(cfg->watchdog_s > 0 ? (unsigned) cfg->watchdog_s * 4 : 120);
			cfg->run(cfg->arg);
			_exit(0);
		}
		int st = 0;
		waitpid(pid, &st, 0);
		runs++;
		G.runs++;
		if (SH->failed)
			G.oracle_fails++;
		if (WIFSIGNALED(st))
			G.crashes++;
		FILE *f = fopen(errf, "r");
		if (f) {
			static char buf[1 << 20];
			size_t      n = fread(buf, 1, sizeof(buf) - 1, f);
			buf[n]        = 0;
			fclose(f);
			if (getenv("VS_FREE_RAW") && strstr(buf, "ThreadSanitizer")) {
				FILE *r = fopen(getenv("VS_FREE_RAW"), "a");
				if (r) {
					fprintf(r, "##### %s run %d\n%s\n", cfg->scenario, r ? runs : 0, buf);
					fclose(r);
				}
			}
			digest_reports(buf, cfg->scenario);
		}
		// (no ENV choices: the same program again - real-time interleavings still differ)
	}
	printf("[free] %s/%s: runs=%d distinct race reports so far=%d\n", G.prop, cfg->scenario, runs,
	    G.nsig);
	return 0;
}

int
vx_finish(void)
{
	FILE *f = fopen(G.outpath, "w");
	if (f) {
		fprintf(f, "{\"property\": \"%s\", \"tier\": \"%s\", \"runs\": %ld, \"oracle_fails_ignored\": %ld, "
		           "\"crashes\": %ld, \"harness_only_reports_ignored\": %ld, \"reports\": [",
		    G.prop, G.tier, G.runs, G.oracle_fails, G.crashes, G.harness_only);
		for (int i = 0; i < G.nsig; i++) {
			fprintf(f, "%s{\"signature\": \"", i ? ", " : "");
			for (const char *q = G.sig[i]; *q; q++)
				if (*q == '"' || *q == '\\')
					fprintf(f, "\\%c", *q);
				else
					fputc(*q, f);
			fprintf(f, "\", \"count\": %d, \"first_scenario\": \"%s\"}", G.count[i], G.first[i]);
		}
		fprintf(f, "]}\n");
		fclose(f);
	}
	for (int i = 0; i < G.nsig; i++)
		printf("TSAN-REPORT x%d %s (first in %s)\n", G.count[i], G.sig[i], G.first[i]);
	printf("free-running TSan pass %s: runs=%ld library reports=%d (harness-only reports ignored=%ld) "
	       "oracle-fails-ignored=%ld crashes=%ld\n",
	    G.prop, G.runs, G.nsig, G.harness_only, G.oracle_fails, G.crashes);
	char cmd[200];
	snprintf(cmd, sizeof(cmd), "rm -rf %s", G.rundir);
	if (system(cmd) != 0) {
	}
	return 0;
}

const char *
vx_tier(void)
{
	return G.tier;
}
int
vx_is_thorough(void)
{
	return 0; // always the quick shapes of the scenarios
}
double
vx_time_left(void)
{
	return G.deadline - wall();
}
void
vx_sample(const char *fmt, ...)
{
	(void) fmt;
}
void
vx_note(const char *key, const char *fmt, ...)
{
	(void) key;
	(void) fmt;
}
void
vx_violation(const char *sig, const char *fmt, ...)
{
	(void) sig;
	(void) fmt;
}
void
vx_add_counts(long a, long b, long c)
{
	(void) a;
	(void) b;
	(void) c;
}
void
vx_set_exhaustive(int yes)
{
	(void) yes;
}
void
vx_add_fault_counts(long a, long b)
{
	(void) a;
	(void) b;
}
const char *
vx_rundir(void)
{
	return G.rundir;
}
